#!/bin/bash
# usage: tools_seeded.sh <name> <property> <outdir>  -- verify an agent-made change (demo passes without, fails with) in a scratch copy, then store it under /verif/seeded/<name>
set -u
NAME=$1; PROP=$2; OUT=$3
D=$(mktemp -d /tmp/seedchk-XXXXXX)
trap 'rm -rf "$D"' EXIT
mkdir -p "$D/repo" && cp -r /repo/src "$D/repo/src"
echo "--- demo on unchanged tree"
PYTHONPATH="$D/repo/src" NUMBA_DISABLE_JIT=1 timeout 300 /venv/bin/python "$OUT/demo.py" > "$D/base.log" 2>&1; B=$?
(cd "$D/repo" && patch -p1 -s < "$OUT/patch.diff") || { echo "PATCH FAILED"; exit 1; }
echo "--- demo with the change"
PYTHONPATH="$D/repo/src" NUMBA_DISABLE_JIT=1 timeout 300 /venv/bin/python "$OUT/demo.py" > "$D/mut.log" 2>&1; M=$?
echo "demo exit codes: unchanged=$B changed=$M"; tail -3 "$D/mut.log"
if [ $B -eq 0 ] && [ $M -ne 0 ]; then
  mkdir -p /verif/seeded/$NAME && cp "$OUT/patch.diff" "$OUT/demo.py" /verif/seeded/$NAME/
  echo "stored in /verif/seeded/$NAME"
else
  echo "NOT CONFIRMED"
fi
