#!/bin/bash
# usage: tools_mutant.sh <patch-file> <check args...>   -- runs a check against a scratch copy of /repo/src with the patch applied
set -e
PATCH=$(realpath "$1"); shift
D=$(mktemp -d /tmp/mgsim-mut-XXXXXX)
trap 'rm -rf "$D"' EXIT
mkdir -p "$D/repo"
cp -r /repo/src "$D/repo/src"
(cd "$D/repo" && patch -p1 -s < "$PATCH")
export MGSIM_REPO_SRC="$D/repo/src"
cd /verif
set +e
./check "$@"
echo "exit=$?"
