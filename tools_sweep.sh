#!/bin/bash
# usage: tools_sweep.sh "<seeds>" [budget] -- runs every registered check for each seed, prints only what needs attention
SEEDS=${1:-"1 2 3"}; BUDGET=${2:-40}
for s in $SEEDS; do
  for p in C01 C04 C05 C06 C07 C08 C09 C10 C12 C13 C14 C15 C17 C18; do
    VERIF_SEED=$s ./check $p --budget $BUDGET 2>&1 | grep -v "^KNOWN" | sed "s/^/[seed=$s $p] /" | grep -E "VIOLATION|violation:|HARNESS|quick:" 
  done
done
