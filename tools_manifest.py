#!/usr/bin/env python3
"""(re)generate MANIFEST.json from the table below; validates against the schema."""
import json, sys

CLAIMED = {
 "C15": ("3/C15", "seeded search over scope trees (three managers, with-blocks and decorators, re-entrant, depth<=6) whose bodies run MyGrad statements, toggles and raises that unwind 1..k scopes; a per-manager stack model is compared with both switches (public query, anchored module variable, behavioural probe statement) after every enter/exit/statement; every statement executed with tracking off is checked for 'nothing recorded, same values, written in place'",
         "scopes held open outside the call stack (suspended generator, ExitStack, manual __enter__) are left in any order relative to scopes of the OTHER setting; for one and the same setting only last-in-first-out exits are generated (no agreed meaning otherwise); threads are not simulated; a toggle made inside a no_autodiff-only scope is asserted neither way in the main lane"),
 "C17": ("3/C17", "seeded search over histories of construction/conversion events on caller arrays and on tensors (copy/dtype/constant options, astensor, asarray, copy(), astype()) followed by later writes of the caller into its arrays, ops and backward; the aliasing model is confirmed by the actual later writes; astensor(t) identity is checked by a twin history that never made the call; copy()/astype() results must be detached; creation routines (zeros/ones/empty/full/*_like/arange/linspace/logspace/geomspace/eye/identity) called with explicit arguments inside those histories (also inside no_autodiff) are compared call by call with their NumPy namesakes (values, shape, dtype, detached, constant flag, dtype gate)",
         "the creation-routine clause is a per-call differential check that merely rides along in the histories (it has no schedule or fault in it; the only state it depends on is the tracking switch); trusts np.shares_memory and NumPy as the reference"),
 "C18": ("3/C18", "seeded search over histories with save events at arbitrary points (live graph, locked memory, view gradients, every dtype, 0-d) to simulated file objects (seekable / offset / non-seekable / write error at the k-th write) and scratch paths, and loads later; round-trip equality of data, dtype, shape and gradient; snapshots around save; twin history without the save/load events",
         "modest: mostly an input-quantified relation; nothing is asserted about a torn file after an injected write error; load inside no_autodiff is not judged for the gradient"),
 "C07": ("3/C07", "seeded search over training-loop histories (persistent leaves, per-iteration programs with views and in-place updates, leaf updates inside and outside no_autodiff, null_grad, verbatim repeated iterations, varied handle-drop order) with the cyclic collector disabled (lane R) or driven by events and PEP 669 pre-emption (lane G); weakref ground truth for 'everything in the cleared graph the caller does not hold is dead without a GC pass', a per-handle gradient-lifetime state machine, bit-identical repeats, gradients vs the tape",
         "trusts: the public-attribute walk to enumerate the graph before backward; 'legitimately retained' = reachable from caller-held objects through data/base/grad or through an un-cleared creator (gc.get_referents closure); backward passes after an aborted (InvalidBackprop) pass are not judged"),
 "C12": ("3/C12", "seeded search over mixed histories (ops on tensors, caller arrays and views of either, out=, in-place, nnet layers) with backward seeded by caller arrays (also one array for two terminals), tensors and arrays taken from .data/.grad; byte checksums of every caller-owned array and every tensor's data around every event, pairwise grad/grad, grad/data and grad/caller-array aliasing after backward, and the operational test 'add 1 to one .grad in place, re-checksum everything else'",
         "trusts: np.shares_memory; backward passes through partially cleared graphs are not judged (C09's subject); aliasing caused by the un-copied seed is a listed known finding (an existing test depends on it)"),
 "C14": ("3/C14", "seeded search over DAG programs with terminals of every shape and float16/32/64 leaves: L.backward(g) and (L*g).sum().backward() executed as two schedules of the same program and compared with each other and with the tape; non-broadcastable seeds injected as faults (must raise, must write nothing); nnet layers as terminals; after every statement every .grad is None or an exact ndarray of the tensor's shape and dtype",
         "trusts: the tape for seeded cotangents; low-precision runs compared with dtype-scaled tolerance; the GRU hidden-sequence shape is a listed known finding pinned by an existing test"),
 "C10": ("3/C10", "seeded search over mutation/DAG histories with random dtype and constant=None/True/False assignments on leaves, ops and views; flags compared with the propagation rules after every statement, integer constant=False rejections checked, gradients compared with the tape with constant edges cut, and a twin execution with eligible constant leaves replaced by plain ndarrays must give bit-identical gradients",
         "trusts: the tape; a non-constant view reached through a constant view is not judged (no statement defines its gradient); twin substitution only for constant leaves that are only read as operands of non-view ops"),
 "C13": ("3/C13", "seeded search over epoch and lock histories with naturally failing statements of every listed kind and injected kernel failures at arbitrary positions (plus GC pre-emption during rollback); snapshot-before = snapshot-after of every live object, the C08 lock model evaluated right after every failed statement, and a twin execution of the same history without the failing statements that must reach bit-identical values and gradients at every backward",
         "trusts: injected kernel faults are raised in place of the user-facing kernel only (never inside internal view replays); the gradient of the target of a failed in-place update and lingering base links are don't-care as derived from the statement (DESIGN C13)"),
 "C06": ("3/C06", "seeded search over view-heavy DAGs under several contribution schedules (which consumer delivers gradient to the base first) followed by read schedules (order/repetition of .grad reads, drops, GC); every view's gradient compared bit-exactly with the NumPy view chain applied to base.grad, memory sharing checked, pairwise grad aliasing vs data aliasing",
         "trusts: the model's flat-index description of each view (obtained by running the same NumPy call on an index array); only views that were family members before the backward call are judged"),
 "C09": ("3/C09", "seeded search over histories with a shared trunk and several terminals, with backward/clear_graph, in-place updates, re-use and null_grad interleaved before a final backward; outcome must be InvalidBackprop or gradients equal to the tape's cotangents on the versions recorded by the forward pass",
         "trusts: the version tape (M2) as the definition of 'the forward computation as it was recorded'; views are judged through their bases; known findings (stale re-routing after clear) listed in known_findings.json"),
 "C01": ("3/C01", "seeded search over random dataflow DAGs, each executed under 2-4 schedules (linear extensions, swapped commutative operands, bystander graphs, early drops, GC); every gradient compared with an independent functional reference tape (exact for integer-valued exact-op runs) and across schedules",
         "trusts: the tape's hand-written VJPs (self-validated against central finite differences on a 1/8 sample; disagreement = HARNESS-ERROR); points where the derivative does not exist are detected by the tape and excluded; float tolerance policy of DESIGN 2.6"),
 "C04": ("3/C04", "seeded search over epoch histories of view creation / non-view ops / in-place updates (setitem, augmented assignment, ufunc out=/where=, .shape=) on any member of a view family, compared after every statement with NumPy shadow arrays executing the same statements (values, dtype, shape, pairwise memory sharing, .base, object identity, constant flag); failing statements, GC pre-emption and id reuse in separate lanes",
         "trusts: NumPy as the reference; only families created entirely within the current epoch are judged (the statement's scope); Python scalars are treated as 0-d arrays (dtype promotion is C03's subject); empty arrays are not judged for sharing"),
 "C05": ("3/C05", "seeded search over epoch histories with reads before/after every mutation; after backward every gradient is compared with the cotangent of the equivalent purely functional program (versions + gather/scatter tape), values with the tape's forward values",
         "trusts: the tape (self-validated against finite differences on a sample); non-differentiable points detected and excluded; tolerance policy of DESIGN 2.6 (bit-exact on certified-exact runs)"),
 "C08": ("3/C08", "seeded search over histories of ops/views/out=/in-place/failing ops/backward/clear/reference drops (incl. drops into reference cycles, GC pre-emption inside MyGrad functions, simulated id reuse, injected kernel failures) judged after every event by a 3-valued lock model built on weakref ground truth",
         "trusts: NumPy flag semantics; the public-attribute walk (creator/variables/base/data) to find live ops; arrays the simulated caller holds are the only ones judged; known findings listed in known_findings.json are reported as KNOWN-FINDING"),
}
NA = [
  ("C02", "per-call input/output relation of one operation (pure function); no schedule, history, fault or shared state for a simulator to decide"),
  ("C03", "per-call forward parity with NumPy (pure function of one call's arguments); the tracking switch it mentions is an input, not a schedule"),
  ("C11", "pure equivalence relation between single calls reached through different spellings; nothing stateful or schedule-dependent"),
  ("C16", "pure functions of layer configuration and input (window arithmetic, layer formulas); no history, fault or interleaving enters"),
]
PENDING = {"C01","C04","C05","C06","C07","C09","C10","C12","C13","C14","C15","C17","C18"}

def main():
    checks = []
    for pid, (ref, text, note) in sorted(CLAIMED.items()):
        checks.append({
            "property_id": pid,
            "quick_cmd": f"./check {pid} --tier quick",
            "thorough_cmd": f"./check {pid} --tier thorough",
            "evidence_file": f"/verif/evidence/{pid}.json",
            "replay_cmd_template": "./check --replay {path}",
            "engine": "mgsim",
            "level_claimed": {"category": "exploration", "text": text, "design_ref": f"DESIGN.md section {ref}"},
            "level_note": note,
            "technique": "deterministic simulation with fault injection: seeded search over histories and fault plans, reference-model oracles, shrinking + exact replay",
        })
    na = [{"property_id": p, "reason": r} for p, r in NA]
    for p in sorted(PENDING - set(CLAIMED)):
        na.append({"property_id": p, "reason": "check under construction in this build round (claimed in DESIGN.md; not yet registered)"})
    m = {
     "version": 1,
     "setup_cmd": "./check setup",
     "hooks": {
      "guard": "RSOKL_MYGRAD_VERIF",
      "enable": "no source hooks: every seam is attached from outside at import time by /verif/mgsim/env.py (rebinding lock_management.id, sys.monitoring line events, wrapped Operation.__call__); the guard name is reserved and unused",
      "baseline_off_cmd": "cd /repo && /venv/bin/python -m pytest -ra -q -p no:cacheprovider --timeout=900 --continue-on-collection-errors",
      "source_commits": [],
      "add_only": True
     },
     "engines": [{"name": "mgsim", "path": "/verif/mgsim", "serves_properties": sorted(CLAIMED), "kind_free_text": "in-process deterministic simulator of caller histories over real MyGrad with NumPy/tape/lock/switch reference models"}],
     "checks": checks,
     "not_applicable": sorted(na, key=lambda x: x["property_id"]),
     "notes": "see DESIGN.md; known genuine defects are listed in known_findings.json"
    }
    json.dump(m, open("MANIFEST.json", "w"), indent=1)
    try:
        import jsonschema
        jsonschema.validate(m, json.load(open("/root/.vp/MANIFEST.schema.json")))
        print("MANIFEST valid;", len(checks), "checks")
    except ImportError:
        print("written (jsonschema not available for validation)")

if __name__ == "__main__":
    main()
