#!/usr/bin/env python3
"""(re)create /verif/mutants/*.patch from textual replacements against the current /repo tree"""
import os, shutil, subprocess, tempfile, json

M = [
 # id, property, file, old, new, note
 ("C01-overwrite-second-contribution", "C01", "src/mygrad/operation_base.py",
  "            else:\n                var._grad += backed_grad\n", "            else:\n                var._grad = var._grad + 0 * backed_grad if index else var._grad + backed_grad\n",
  "second gradient contribution is dropped for every operand but the first (accumulation bug: only fan-out through index>0 loses gradient)"),
 ("C01-reduce-broadcast-keepdims", "C01", "src/mygrad/_utils/__init__.py",
  "    keepdims = tuple(n for n, i in enumerate(grad.shape) if i != var_shape[n])", "    keepdims = tuple(n for n, i in enumerate(grad.shape) if i != var_shape[n] and n > 0)",
  "broadcast reduction forgets axis 0 when only size-1 axes were broadcast"),
 ("C05-setitem-no-zero", "C05", "src/mygrad/_tensor_core_ops/indexing.py",
  "            grad = np.copy(grad)\n            grad[self.index] = 0\n            return grad", "            grad = np.copy(grad)\n            if not _is_int_array_index(self.index):\n                grad[self.index] = 0\n            return grad",
  "overwritten elements keep passing gradient to their old contents when the index contains integer arrays"),
 ("C05-applymask-wrong-mask", "C05", "src/mygrad/_utils/duplicating_graph.py",
  "            return grad * logical_not(self._mask)", "            return grad * logical_not(self._mask) if getattr(self._mask, 'ndim', 0) == grad.ndim else grad * self._mask",
  "a broadcast where-mask routes mask instead of ~mask to the old contents"),
 ("C04-view-base-parent", "C04", "src/mygrad/tensor_base.py",
  "                    base = parent_var if parent_var.base is None else parent_var.base\n", "                    base = parent_var if (parent_var.base is None or parent_var.creator is None) else parent_var.base\n",
  "harmless-looking extra condition"),
 ("C06-view-grad-cache-not-validated", "C06", "src/mygrad/tensor_base.py",
  "        if self._view_grad is not None and (\n            self._view_grad.base is self._base._grad\n", "        if self._view_grad is not None and (\n            self._base._grad is not None\n",
  "cached view gradient returned although the base got a new gradient array"),
 ("C06-identity-view-grad-fix-reverted", "C06", "src/mygrad/tensor_base.py",
  "            or self._view_grad is self._base._grad\n", "",
  "the cached gradient of a view whose op returned its input array itself is rejected after backward (fix 14 reverted)"),
 ("C06-layout-fix-reverted", "C06", "src/mygrad/operation_base.py",
  "                    or backed_grad.strides != var.data.strides\n", "",
  "the stored gradient no longer mirrors the layout of the data (the original defect)"),
 ("C07-ops-strong", "C07", "src/mygrad/tensor_base.py",
  "        self._view_children.clear()\n        self._ops.clear()\n\n        if self._creator is None:\n            return\n", "        self._view_children.clear()\n\n        if self._creator is None:\n            self._ops.clear()\n            return\n        self._ops.clear()\n",
  "equivalent reordering (control)"),
 ("C07-no-grad-null-on-use", "C07", "src/mygrad/tensor_base.py",
  "                if base is None:\n                    # non-view ops clear grads\n                    v._grad = None\n                    v._view_grad = None\n", "                if base is None and v._creator is not None:\n                    # non-view ops clear grads\n                    v._grad = None\n                    v._view_grad = None\n",
  "leaves keep their old gradient when they enter a non-view op (stale gradient)"),
 ("C08-no-release-on-failure", "C08", "src/mygrad/tensor_base.py",
  "        except Exception as e:\n            if _track.TRACK_GRAPH and _mem.MEM_GUARD:\n                _mem.release_writeability_lock_on_op(_uniques_bases_then_arrs)\n            raise e\n", "        except Exception as e:\n            raise e\n",
  "locks taken for a failed op are never released"),
 ("C08-views-before-bases", "C08", "src/mygrad/_utils/lock_management.py",
  "            if arr.base is not None:\n                base_id = id(arr.base)\n                if base_id not in seen:\n                    seen.add(base_id)\n                    yield arr.base\n            seen.add(arr_id)\n            yield arr\n", "            seen.add(arr_id)\n            yield arr\n            if arr.base is not None:\n                base_id = id(arr.base)\n                if base_id not in seen:\n                    seen.add(base_id)\n                    yield arr.base\n",
  "views are released before their bases"),
 ("C08-waiting-views-not-drained", "C08", "src/mygrad/_utils/lock_management.py",
  "        arr.base is None\n        and arr.flags.writeable\n        and (arr_id in _views_waiting_for_unlock)\n", "        arr.base is None\n        and arr.flags.writeable\n        and (arr_id in _views_waiting_for_unlock)\n        and len(_views_waiting_for_unlock[arr_id]) > 1\n",
  "a single waiting view is never unlocked when its base is released"),
 ("C08-idreuse-fix-reverted", "C08", "src/mygrad/_utils/lock_management.py",
  "            if view_arr is None or view_arr.base is not arr:", "            if view_arr is None:",
  "stale waiting entries are honoured again (needs id reuse to manifest)"),
 ("C08-stale-count-fix-reverted", "C08", "src/mygrad/_utils/lock_management.py",
  "    if tracked_ref is not None and tracked_ref() is None:\n", "    if False:\n",
  "a stale lock count of a dead array is applied to a natively read-only array with the same id (fixes 13/15 reverted; needs id reuse)"),
 ("C08-tracker-entry-only-on-first-lock", "C08", "src/mygrad/_utils/lock_management.py",
  "        _array_counter[arr_id] = 1\n    else:\n        _array_counter[arr_id] += 1\n", "        _array_tracker[arr_id] = ref(arr)\n        _array_counter[arr_id] = 1\n        if arr.flags.writeable is True:\n            arr.flags.writeable = False\n        return arr\n    else:\n        _array_counter[arr_id] += 1\n        if arr.flags.writeable is True:\n            arr.flags.writeable = False\n        return arr\n",
  "the tracker entry is only written on the first lock (fix 16 reverted): a finalizer between the tracked-check and the increment leaves a count without an entry (needs GC pre-emption)"),
 ("C08-stale-count-guard-too-wide", "C08", "src/mygrad/_utils/lock_management.py",
  "    if tracked_ref is not None and tracked_ref() is None:\n", "    if tracked_ref is None or tracked_ref() is None:\n",
  "the first version of fix 13: every array without a live tracker entry is skipped on release (leaks a lock when the cyclic GC runs between the tracked-check and the increment)"),
 ("C09-no-invalid-backprop-check", "C09", "src/mygrad/operation_base.py",
  "            if not var._ops:\n", "            if not var._ops and var._creator is not None:\n",
  "cleared leaves no longer trigger InvalidBackprop"),
 ("C10-any-all", "C10", "src/mygrad/tensor_base.py",
  "            if any(not var.constant for var in tensor_vars):\n                constant = None", "            if all(not var.constant for var in tensor_vars):\n                constant = None",
  "result is constant if ANY input is constant"),
 ("C12-no-copy-of-view-contribution", "C12", "src/mygrad/operation_base.py",
  "                    backed_grad.base is not None\n                    or (backed_grad is grad)\n", "                    (backed_grad is grad)\n",
  "a first contribution that is a view of the incoming gradient is stored without copying (needs equal strides)"),
 ("C13-no-restore", "C13", "src/mygrad/_utils/duplicating_graph.py",
  "            if node.placeholder._base is not None:\n                node.tensor._base = self.base.tensor\n", "            pass\n",
  "rollback forgets to restore the base of the views"),
 ("C14-no-dtype-cast", "C14", "src/mygrad/tensor_base.py",
  "            _grad = asarray(grad, dtype=self.dtype)\n", "            _grad = asarray(grad)\n            if _grad.ndim == 0:\n                _grad = asarray(grad, dtype=self.dtype)\n",
  "array seeds keep their own dtype"),
 ("C15-exit-skips-restore-on-exception", "C15", "src/mygrad/_utils/__init__.py",
  "        self._depth -= 1\n        self.state = self._depth_tracker.pop(self._depth)\n", "        self._depth -= 1\n        prev = self._depth_tracker.pop(self._depth)\n        if exc_type is None or self._depth == 0:\n            self.state = prev\n",
  "nested scopes left by an exception do not restore their switch"),
 ("C17-astensor-rewraps", "C17", "src/mygrad/tensor_base.py",
  "    if isinstance(arr_like, Tensor) and copy is False:\n        if (constant is None or arr_like.constant is constant) and (", "    if isinstance(arr_like, Tensor) and copy is False and arr_like.creator is None:\n        if (constant is None or arr_like.constant is constant) and (",
  "astensor(t) returns a new tensor (without graph) when t has a creator"),
 ("C05-int-index-width-fix-reverted", "C05", "src/mygrad/_tensor_core_ops/indexing.py",
  "np.issubdtype(np.asarray(ind).dtype, np.integer) and np.asarray(ind).ndim", "np.issubdtype(np.asarray(ind).dtype, np.int_) and np.asarray(ind).ndim",
  "repeated int32/int16/uint8 index arrays are not resolved to the last write (fix 11 reverted)"),
 ("C05-index-tensor-fix-reverted", "C05", "src/mygrad/_tensor_core_ops/indexing.py",
  "    return tuple(np.array(ind.data) if isinstance(ind, Tensor) else ind for ind in index)", "    return index",
  "the ops keep the caller's index Tensor again (fix 12 reverted): later in-place updates of the index re-route the gradient"),
 ("C04-replayed-identity-view-fix-reverted", "C04", "src/mygrad/tensor_base.py",
  "            if view._base is None and view.data is node.parent.data:\n", "            if False:\n",
  "a view that an in-place update re-creates loses its base and its replay arguments when its view op hands back the new base array itself (fix 18 reverted): the next in-place update dies with an internal TypeError after the base was written, and a failed update re-points the view's base"),
 ("C18-save-private-grad", "C18", "src/mygrad/_io.py",
  "    if tensor.grad is not None:\n        np.savez(file, data=tensor.data, grad=tensor.grad)", "    if tensor._grad is not None:\n        np.savez(file, data=tensor.data, grad=tensor._grad)",
  "view gradients are not saved (or a view's private contribution is saved instead)"),
]

def main():
    out = "/verif/mutants"
    meta = {}
    try:
        old_meta = json.load(open(os.path.join(out, "meta.json")))
    except Exception:
        old_meta = {}
    for mid, prop, f, old, new, note in M:
        d = tempfile.mkdtemp(prefix="mkmut-")
        try:
            a, b = os.path.join(d, "a"), os.path.join(d, "b")
            os.makedirs(os.path.join(a, os.path.dirname(f))); os.makedirs(os.path.join(b, os.path.dirname(f)))
            src = open(os.path.join("/repo", f)).read()
            if old not in src:
                print("!! pattern not found for", mid); continue
            open(os.path.join(a, f), "w").write(src)
            open(os.path.join(b, f), "w").write(src.replace(old, new, 1))
            r = subprocess.run(["diff", "-u", os.path.join("a", f), os.path.join("b", f)], cwd=d, capture_output=True, text=True)
            open(os.path.join(out, mid + ".patch"), "w").write(r.stdout)
            meta[mid] = {"property": prop, "note": note, "file": f}
            for k, v in old_meta.get(mid, {}).items():
                meta[mid].setdefault(k, v)  # hand-written fields (expect_detect, checks) survive
        finally:
            shutil.rmtree(d)
    for mid, v in old_meta.items():
        # hand-made patches (git diff -R of a fix: commit) are not in M: keep their entries
        if mid not in meta and os.path.exists(os.path.join(out, mid + ".patch")):
            meta[mid] = v
    json.dump(meta, open(os.path.join(out, "meta.json"), "w"), indent=1)
    print(len(meta), "mutants written")

if __name__ == "__main__":
    main()
