"""History minimisation (DESIGN 2.7): ddmin over events (recursing into scope bodies), then over the
fault plan, while the same (property, oracle id) persists."""
import copy

from .props import run_history


def _same(w, target):
    for v in w.violations:
        if v["property"] == target[0] and v["oracle"] == target[1]:
            return v
    return None


def fails(hist, target, budget):
    if budget[0] <= 0:
        return None
    budget[0] -= 1
    try:
        w = run_history(hist)
    except Exception:
        import sys, traceback

        traceback.print_exc(file=sys.stderr)
        return None
    return _same(w, target)


def _flatten_paths(events, prefix=()):
    out = []
    for i, ev in enumerate(events):
        out.append(prefix + (i,))
        if ev["k"] == "scope":
            out.extend(_flatten_paths(ev.get("body", []), prefix + (i, "body")))
    return out


def _remove(events, paths):
    """return a deep copy of events without the events at `paths`"""
    paths = set(paths)

    def rec(evs, prefix):
        res = []
        for i, ev in enumerate(evs):
            p = prefix + (i,)
            if p in paths:
                continue
            if ev["k"] == "scope":
                ev = dict(ev)
                ev["body"] = rec(ev.get("body", []), p + ("body",))
            res.append(ev)
        return res

    return rec(events, ())


def shrink(hist, target, max_runs=400):
    budget = [max_runs]
    best = copy.deepcopy(hist)
    v = fails(best, target, budget)
    if v is None:
        return best, None
    # truncate after the failing step (top level)
    n = 2
    while budget[0] > 0:
        paths = _flatten_paths(best["events"])
        if len(paths) <= 1:
            break
        chunk = max(1, len(paths) // n)
        progressed = False
        i = 0
        while i < len(paths) and budget[0] > 0:
            cand = dict(best)
            cand["events"] = _remove(best["events"], paths[i : i + chunk])
            vv = fails(cand, target, budget)
            if vv is not None:
                best = cand
                v = vv
                paths = _flatten_paths(best["events"])
                progressed = True
                n = max(n - 1, 2)
            else:
                i += chunk
        if not progressed:
            if chunk == 1:
                break
            n = min(n * 2, len(paths))
    # fault plan: drop pre-emptions / kernel faults / id policy
    def each(evs):
        for ev in evs:
            yield ev
            if ev["k"] == "scope":
                yield from each(ev.get("body", []))

    for key in ("gcp", "kf"):
        idxs = [k for k, ev in enumerate(each(best["events"])) if key in ev]
        for k in idxs:
            cand = copy.deepcopy(best)
            for j, ev in enumerate(each(cand["events"])):
                if j == k:
                    ev.pop(key, None)
            vv = fails(cand, target, budget)
            if vv is not None:
                best, v = cand, vv
    if best["cfg"].get("id_policy", "never") != "never":
        cand = copy.deepcopy(best)
        cand["cfg"]["id_policy"] = "never"
        vv = fails(cand, target, budget)
        if vv is not None:
            best, v = cand, vv
    # spelling simplification
    for k, ev in enumerate(list(each(best["events"]))):
        if ev.get("spell") not in (None, "f"):
            cand = copy.deepcopy(best)
            for j, e2 in enumerate(each(cand["events"])):
                if j == k:
                    e2["spell"] = "f"
            vv = fails(cand, target, budget)
            if vv is not None:
                best, v = cand, vv
    return best, v
