"""Seeded history generator.  NumPy only (never touches MyGrad): it keeps its own value-level
shadow state so that the emitted statements are well-formed; every choice comes from one
random.Random.  The emitted history is explicit (handles, indices, values), so any sub-list of it is
again a history (statements whose operands are missing or that NumPy rejects are skipped by the
interpreter) - the precondition for shrinking (DESIGN 2.2).
"""
import numpy as np

from .codec import dec_index, enc_arr, enc_index
from .ops import OPS, NP_UFUNC

DT_FLOAT = ["f8", "f4", "f2"]
_DTYPES = {"f8": np.float64, "f4": np.float32, "f2": np.float16, "i8": np.int64, "i4": np.int32, "b1": np.bool_}

UNARY_CORE = ["neg", "pos", "square", "abs", "exp", "log", "sin", "cos", "tanh", "sqrt"]
UNARY_MORE = ["arccos", "arcsin", "arctan", "arccosh", "arcsinh", "arctanh", "cbrt", "cosh", "sinh", "tan", "exp2", "expm1", "log10", "log2", "log1p", "reciprocal",
              "cot", "sec", "csc", "coth", "sech", "csch", "arccot", "arccoth", "arccsc", "arcsec", "arccsch", "sinc"]
UNARY = UNARY_CORE * 3 + UNARY_MORE  # the core names stay three times as likely as the long tail
UNARY_EXACT = ["neg", "pos", "square"]
BINARY = ["add", "sub", "mul", "div", "maximum", "minimum"] * 3 + ["arctan2", "logaddexp", "logaddexp2"]
BINARY_EXACT = ["add", "sub", "mul"]
REDUCE = ["sum", "mean", "prod", "max", "min", "var", "std"]
REDUCE_EXACT = ["sum"]
VIEWS = ["getitem", "reshape", "ravel", "squeeze", "expand_dims", "transpose", "swapaxes", "moveaxis", "broadcast_to", "diag"] * 2 + ["atleast_1d", "atleast_2d", "atleast_3d", "repeat", "roll"]


class G:
    """generation-time state of one tensor handle"""

    __slots__ = ("val", "const", "born", "fam", "kind", "depth")

    def __init__(self, val, const, born, fam, kind="t", depth=0):
        self.val, self.const, self.born, self.fam, self.kind, self.depth = val, const, born, fam, kind, depth


class Gen:
    def __init__(self, rng, cfg):
        self.r = rng
        self.cfg = cfg
        self.ev = []
        self.t = {}  # handle -> G
        self.a = {}  # handle -> ndarray (values)
        self.a_ro = {}
        self.next_h = 1
        self.epoch = 0
        self.exact = bool(cfg.get("exact"))
        self.max_elems = cfg.get("max_elems", 12)
        self.max_ndim = cfg.get("max_ndim", 3)
        self.dtypes = cfg.get("dtypes", ["f8"])
        self.tracking = True
        self.fam_id = 0
        self.idx_tensors = []  # integer tensors that were used as the index of some x[i]
        self.scope_depth = 0
        self._sink = self.ev

    # ------------------------------------------------------------------ basics
    def new_h(self):
        h = self.next_h
        self.next_h += 1
        return h

    def emit(self, ev):
        self._sink.append(ev)
        return ev

    def coin(self, p):
        return self.r.random() < p

    def choice(self, xs):
        return xs[self.r.randrange(len(xs))]

    def wchoice(self, table):
        """table: list of (item, weight)"""
        tot = sum(w for _, w in table)
        x = self.r.random() * tot
        for it, w in table:
            x -= w
            if x < 0:
                return it
        return table[-1][0]

    def rand_shape(self, max_ndim=None, min_ndim=0, max_elems=None):
        max_ndim = self.max_ndim if max_ndim is None else max_ndim
        max_elems = max_elems or self.max_elems
        nd = self.r.randint(min(min_ndim, max_ndim), max_ndim)
        shape = []
        n = 1
        for _ in range(nd):
            d = self.r.randint(1, 4)
            if n * d > max_elems:
                d = 1
            shape.append(d)
            n *= d
        return tuple(shape)

    def rand_vals(self, shape, dtype="f8", lo=-3, hi=3, positive=False):
        n = int(np.prod(shape)) if len(shape) else 1
        if dtype == "b1":
            v = np.array([self.coin(0.5) for _ in range(n)], dtype=bool)
        elif dtype in ("i8", "i4"):
            v = np.array([self.r.randint(lo, hi) for _ in range(n)], dtype=_DTYPES[dtype])
        elif self.exact:
            v = np.array([float(self.r.randint(1 if positive else lo, hi)) for _ in range(n)], dtype=_DTYPES[dtype])
        else:
            if positive:
                v = np.array([round(self.r.uniform(0.5, hi), 2) for _ in range(n)], dtype=_DTYPES[dtype])
            else:
                v = np.array([round(self.r.uniform(lo, hi), 2) for _ in range(n)], dtype=_DTYPES[dtype])
        return v.reshape(shape)

    def ok_val(self, v):
        v = np.asarray(v)
        if v.size > self.cfg.get("max_result_elems", 64):
            return False
        if v.dtype.kind == "f":
            if not np.all(np.isfinite(v)):
                return False
            lim = 2.0**40 if self.exact else (1e6 if self.dtypes == ["f8"] else 64.0)
            if v.size and np.max(np.abs(v.astype(np.float64))) > lim:
                return False
        return True

    def tensors(self, pred=None):
        hs = sorted(self.t)
        if pred:
            hs = [h for h in hs if pred(h, self.t[h])]
        return hs

    def float_tensors(self):
        return self.tensors(lambda h, g: g.val.dtype.kind == "f")

    # ------------------------------------------------------------------ creation
    def leaf(self, shape=None, dtype=None, constant="rand", positive=False):
        h = self.new_h()
        dtype = dtype or self.choice(self.dtypes)
        shape = self.rand_shape(min_ndim=(self.cfg.get("leaf_min_ndim", 0) if self.coin(0.7) else 0)) if shape is None else shape
        v = self.rand_vals(shape, dtype, positive=positive)
        if constant == "rand":
            constant = self.wchoice([(None, 6), (True, 1), (False, 1)]) if self.cfg.get("const_flags") else None
        if v.dtype.kind != "f" and constant is False:
            constant = None
        ev = {"k": "leaf", "out": h, "arr": enc_arr(v), "constant": constant}
        if self.coin(0.3):
            ev["via"] = "Tensor"
        if v.ndim >= 2 and self.cfg.get("f_order_p") and self.coin(self.cfg["f_order_p"]):
            ev["order"] = "F"  # a leaf whose memory is Fortran-ordered
            v = np.asfortranarray(v)
        self.emit(ev)
        const = constant if constant is not None else (v.dtype.kind != "f")
        self.fam_id += 1
        self.t[h] = G(np.array(v, copy=True, order="K"), const, self.epoch, self.fam_id)
        return h

    def arr(self, shape=None, dtype=None, ro=False):
        h = self.new_h()
        dtype = dtype or self.choice(self.dtypes)
        shape = self.rand_shape() if shape is None else shape
        v = self.rand_vals(shape, dtype)
        ev = {"k": "arr", "out": h, "arr": enc_arr(v), "ro": bool(ro)}
        self.emit(ev)
        self.a[h] = v.copy()
        self.a_ro[h] = bool(ro)
        return h

    def create(self):
        """a creation routine with explicit arguments (C17's per-call clause, placed in histories
        because the dtype gate and the constant flag depend on the tracking switch)"""
        r = self.r
        fn = self.choice(["zeros", "ones", "empty", "zeros_like", "ones_like", "empty_like", "full", "full_like", "arange", "linspace", "logspace", "geomspace", "eye", "identity"])
        kw = {}
        args = []
        like = None
        dts = ["f8", "f4", "f2", "i8", "i4", "b1"]
        if self.coin(0.6):
            kw["dtype"] = self.choice(dts)
        if self.coin(0.04):
            kw["dtype"] = "c16"  # refused while tracking is on
        shp = list(self.rand_shape())
        if fn in ("zeros", "ones", "empty"):
            args = [{"shape": shp}] if (len(shp) != 1 or self.coin(0.5)) else [shp[0]]
        elif fn.endswith("_like"):
            hs = self.tensors()
            if hs and self.coin(0.7):
                like = {"t": self.choice(hs)}
            elif self.a and self.coin(0.7):
                like = {"a": self.choice(sorted(self.a))}
            else:
                like = {"n": enc_arr(self.rand_vals(tuple(shp), self.choice(["f8", "f4", "i8"])))}
            if fn == "full_like":
                args = [self.choice([2, -1.5, 0.25, 7])]
            if self.coin(0.25):
                kw["shape"] = shp if (len(shp) != 1 or self.coin(0.5)) else shp[0]
        elif fn == "full":
            args = [{"shape": shp}, self.choice([2, -1.5, 0.25, 7, True])]
        elif fn == "arange":
            n = r.randint(1, 3)
            cand = [r.randint(-3, 6), r.randint(-3, 9), self.choice([1, 2, -1, 0.5, 3])]
            args = [cand[1]] if n == 1 else cand[:n]
            if self.coin(0.3):
                args = [float(a) + self.choice([0.0, 0.5]) for a in args]
            if len(args) == 3 and args[2] == 0:
                args[2] = 1
        elif fn in ("linspace", "logspace", "geomspace"):
            a, b = round(r.uniform(0.5, 3), 2), round(r.uniform(0.5, 4), 2)
            if self.coin(0.3):
                a, b = r.randint(1, 3), r.randint(1, 5)
            args = [a, b]
            if self.coin(0.25):
                # array-valued end points with an explicit axis
                m = r.randint(1, 3)
                args = [{"n": enc_arr(self.rand_vals((m,), "f8", positive=True) + 0.5)}, {"n": enc_arr(self.rand_vals((m,), "f8", positive=True) + 0.5)}]
                if self.coin(0.5):
                    kw["axis"] = self.choice([0, 1, -1])
            if self.coin(0.8):
                kw["num"] = r.randint(0, 6)
            if self.coin(0.5):
                kw["endpoint"] = self.coin(0.5)
            if fn == "logspace" and self.coin(0.4):
                kw["base"] = self.choice([2, 10, 2.5])
            if kw.get("dtype") in ("b1",):
                kw.pop("dtype")
        elif fn == "eye":
            args = [r.randint(0, 4)]
            if self.coin(0.5):
                kw["M"] = r.randint(0, 4)
            if self.coin(0.5):
                kw["k"] = r.randint(-2, 2)
        else:
            args = [r.randint(0, 4)]
        c = self.wchoice([(None, 6), (True, 1), (False, 1)])
        if c is not None:
            kw["constant"] = c
        ev = {"k": "create", "fn": fn, "out": self.new_h(), "pargs": args, "kw": kw}
        if like is not None:
            ev["like"] = like
        self.emit(ev)
        return None  # (the generator does not track the new tensor: it takes no further part)

    def rand_basic_index(self, shape, allow_newaxis=True, allow_int=True, want_view=True):
        ix = []
        used_ellipsis = False
        dims = list(shape)
        i = 0
        while i < len(dims):
            d = dims[i]
            c = self.r.random()
            if c < 0.08 and not used_ellipsis and len(dims) > 1:
                ix.append(Ellipsis)
                used_ellipsis = True
                break
            if c < 0.16 and allow_newaxis:
                ix.append(None)
                continue
            if c < 0.35 and allow_int and d > 0:
                ix.append(self.r.randint(-d, d - 1))
            else:
                start = self.r.choice([None, 0, 1, -1, self.r.randint(0, max(d - 1, 0))])
                stop = self.r.choice([None, None, d, -1, self.r.randint(0, d)])
                step = self.r.choice([None, None, 1, 2, -1, -2])
                ix.append(slice(start, stop, step))
            i += 1
        if not ix:
            ix = [Ellipsis]
        return tuple(ix) if len(ix) != 1 or self.coin(0.5) else ix[0]

    def rand_adv_index(self, shape):
        """integer-array (possibly repeated) or boolean-mask index for a non-0-d shape"""
        if len(shape) == 0:
            return None
        if self.coin(0.4):
            m = np.array([self.coin(0.5) for _ in range(int(np.prod(shape)))], dtype=bool).reshape(shape)
            return m
        d0 = shape[0]
        if d0 == 0:
            return None
        n = self.r.randint(1, 4)
        # integer index arrays of every width are legal NumPy indices (int32 from other libraries,
        # uint8 from image code); negative entries only for signed types
        idt = self.choice([np.int64, np.int64, np.int64, np.int32, np.int16, np.uint8])
        lo = 0 if idt is np.uint8 else -d0
        ia = np.array([self.r.randint(lo, d0 - 1) for _ in range(n)], dtype=idt)
        if len(shape) > 1 and self.coin(0.4):
            d1 = shape[1]
            ib = np.array([self.r.randint(0, d1 - 1) for _ in range(n)], dtype=idt)
            return (ia, ib)
        if len(shape) > 1 and self.coin(0.3):
            return (slice(None), np.array([self.r.randint(0, shape[1] - 1) for _ in range(n)], dtype=idt))
        return ia

    # ------------------------------------------------------------------ operands
    def operand_for(self, shape, dtype_kind="f", allow_arrays=True, prefer=None, exclude=()):
        """a ref to something broadcastable to `shape`: tensor handle, caller array, scalar, literal"""
        cands = []
        for h in self.tensors():
            if h in exclude:
                continue
            g = self.t[h]
            if self._bcastable(g.val.shape, shape):
                cands.append({"t": h})
        if allow_arrays:
            for h in sorted(self.a):
                if self._bcastable(self.a[h].shape, shape):
                    cands.append({"a": h})
        c = self.r.random()
        if cands and c < 0.65:
            return self.choice(cands)
        if c < 0.85:
            if self.exact:
                return {"c": float(self.r.randint(-3, 3))}
            return {"c": round(self.r.uniform(-3, 3), 2)}
        # literal array with a broadcast-compatible shape
        shp = self._sub_shape(shape)
        return {"n": enc_arr(self.rand_vals(shp, "f8"))}

    @staticmethod
    def _bcastable(s, target):
        if len(s) > len(target):
            return False
        for a, b in zip(s[::-1], target[::-1]):
            if a != b and a != 1:
                return False
        return True

    def _sub_shape(self, shape):
        shape = list(shape)
        k = self.r.randint(0, len(shape))
        sub = shape[len(shape) - k :]
        return tuple(1 if self.coin(0.3) else d for d in sub)

    def val_of(self, ref):
        if "t" in ref:
            return self.t[ref["t"]].val
        if "a" in ref:
            return self.a[ref["a"]]
        if "c" in ref:
            return ref["c"]
        from .codec import dec_arr

        return dec_arr(ref["n"] if "n" in ref else ref["l"])

    def const_of(self, ref):
        return self.t[ref["t"]].const if "t" in ref else True

    # ------------------------------------------------------------------ ops
    def _emit_op(self, op, refs, p=None, spell=None, constant=None, view_src=None, **extra):
        od = OPS[op]
        p = p or {}
        vals = [self.val_of(r) for r in refs]
        try:
            if not od.domain_ok(vals, p):
                return None
            out = np.asarray(od.np(vals, p))
        except Exception:
            return None
        if not self.ok_val(out):
            return None
        if out.size == 0 and not self.cfg.get("allow_empty"):
            return None
        h = self.new_h()
        spell = spell or self.choice(od.spellings)
        if constant is None and self.cfg.get("const_flags") and view_src is None and "out_arr" not in extra and od.spellings != ("o",):
            constant = self.rand_op_const()  # every operation takes constant=, in every spelling that has keywords
        ev = {"k": "op", "op": op, "out": h, "args": refs, "p": p, "spell": spell}
        if constant is not None and not (constant is False and out.dtype.kind != "f") and op != "getitem":
            ev["constant"] = constant
        ev.update(extra)
        self.emit(ev)
        const = ev.get("constant")
        if const is None:
            const = (out.dtype.kind != "f") or all(self.const_of(r) for r in refs)
        fam = None
        if view_src is not None and isinstance(out, np.ndarray) and out.size and np.shares_memory(out, self.t[view_src].val) and self.tracking:
            fam = self.t[view_src].fam
            born = self.epoch
        if fam is None:
            self.fam_id += 1
            fam = self.fam_id
            out = np.array(out, copy=True) if not (view_src is not None and np.shares_memory(out, self.t[view_src].val)) else out
        depth = 1 + max([self.t[r["t"]].depth for r in refs if "t" in r] or [0])
        self.t[h] = G(out, const, self.epoch, fam, depth=depth)
        return h

    def op_unary(self, src=None, ops=None):
        ops = ops or (UNARY_EXACT if self.exact else UNARY)
        hs = self.float_tensors()
        if not hs:
            return None
        src = src if src is not None else self.choice(hs)
        for _ in range(4):
            h = self._emit_op(self.choice(ops), [{"t": src}], constant=self.rand_op_const())
            if h is not None:
                return h
        return None

    def rand_op_const(self):
        if not self.cfg.get("const_flags"):
            return None
        return self.wchoice([(None, 10), (True, 1), (False, 1)])

    def op_binary(self, src=None, ops=None, allow_arrays=True):
        ops = ops or (BINARY_EXACT if self.exact else BINARY)
        hs = self.float_tensors()
        if not hs:
            return None
        src = src if src is not None else self.choice(hs)
        shape = self.t[src].val.shape
        for _ in range(4):
            other = self.operand_for(shape, allow_arrays=allow_arrays)
            refs = [{"t": src}, other]
            if self.coin(0.5):
                refs = refs[::-1]
            h = self._emit_op(self.choice(ops), refs, constant=self.rand_op_const())
            if h is not None:
                return h
        return None

    def op_power(self, src=None):
        hs = self.float_tensors()
        if not hs:
            return None
        src = src if src is not None else self.choice(hs)
        if self.t[src].val.dtype != np.float64:
            return None  # x**2 vs power(x, 2) promote differently for float32 (C03/C11 territory)
        e = self.choice([1, 2, 3])
        return self._emit_op("power", [{"t": src}, {"c": e}], spell=self.choice(["f", "o"]))

    def rand_axis(self, ndim, allow_tuple=True):
        if ndim == 0:
            return None
        c = self.r.random()
        if c < 0.3:
            return None
        if c < 0.8 or not allow_tuple or ndim < 2:
            return self.r.randint(-ndim, ndim - 1)
        k = self.r.randint(1, ndim)
        axes = self.r.sample(range(ndim), k)
        return [a if self.coin(0.5) else a - ndim for a in axes]

    def op_reduce(self, src=None, ops=None):
        ops = ops or (REDUCE_EXACT if self.exact else REDUCE)
        hs = self.float_tensors()
        if not hs:
            return None
        src = src if src is not None else self.choice(hs)
        nd = self.t[src].val.ndim
        for _ in range(3):
            op = self.choice(ops)
            p = {"axis": self.rand_axis(nd), "keepdims": self.coin(0.3)}
            if op in ("var", "std") and self.coin(0.3):
                p["ddof"] = 1
                ax = p["axis"]
                # keep n - ddof > 0
                v = self.t[src].val
                if v.size < 3 or any(d < 2 for d in v.shape):
                    p["ddof"] = 0
            h = self._emit_op(op, [{"t": src}], p, constant=self.rand_op_const())
            if h is not None:
                return h
        return None

    def op_cumsum(self, src=None):
        hs = self.float_tensors()
        if not hs:
            return None
        src = src if src is not None else self.choice(hs)
        nd = self.t[src].val.ndim
        ax = None if nd == 0 or self.coin(0.2) else self.r.randint(-nd, nd - 1)
        if not self.exact and self.coin(0.3):
            h = self._emit_op("cumprod", [{"t": src}], {"axis": ax})
            if h is not None:
                return h
        if not self.exact and nd >= 1 and self.coin(0.2):
            p = {"ord": self.choice([None, None, 1, 2, 3]), "axis": (None if (nd == 1 and self.coin(0.5)) else self.r.randint(-nd, nd - 1)), "keepdims": self.coin(0.3)}
            h = self._emit_op("norm", [{"t": src}], p)
            if h is not None:
                return h
        return self._emit_op("cumsum", [{"t": src}], {"axis": ax})

    def op_matmul(self, src=None):
        hs = [h for h in self.float_tensors() if 1 <= self.t[h].val.ndim <= 2]
        if not hs:
            return None
        src = src if src is not None and src in hs else self.choice(hs)
        if self.coin(0.25):
            h = self.op_multi_matmul(src)
            if h is not None:
                return h
        s = self.t[src].val.shape
        k = s[-1]
        oshape = self.choice([(k,), (k, self.r.randint(1, 3))])
        cands = [{"t": h} for h in hs if self.t[h].val.shape == oshape]
        if cands and self.coin(0.6):
            other = self.choice(cands)
        else:
            other = {"n": enc_arr(self.rand_vals(oshape, "f8"))}
        return self._emit_op("matmul", [{"t": src}, other])

    def op_multi_matmul(self, src):
        """a chain of 3-4 operands with src first, last or in the middle; the other operands are
        existing tensors of a fitting shape where there are any, else literal arrays"""
        s = self.t[src].val.shape
        n = self.r.randint(3, 4)
        if len(s) == 1:
            pos = self.choice([0, n - 1])
        else:
            pos = self.r.randint(0, n - 1)
        # inner dimensions d[0..n]; operand i has shape (d[i], d[i+1]); 1-D allowed at both ends
        d = [self.r.randint(1, 3) for _ in range(n + 1)]
        if len(s) == 2:
            d[pos], d[pos + 1] = s
        elif pos == 0:
            d[1] = s[0]
        else:
            d[n - 1] = s[0]
        parts = []
        for i in range(n):
            if i == pos:
                parts.append({"t": src})
                continue
            shp = (d[i], d[i + 1])
            if i == 0 and self.coin(0.3):
                shp = (d[1],)
            if i == n - 1 and self.coin(0.4):
                shp = (d[n - 1],)
            cands = [{"t": h} for h in self.float_tensors() if self.t[h].val.shape == shp]
            if cands and self.coin(0.6):
                parts.append(self.choice(cands))
            else:
                parts.append({"n": enc_arr(self.rand_vals(shp, "f8"))})
        return self._emit_op("multi_matmul", parts)

    EINSUM_PATTERNS = [
        "ij->ji", "ij->i", "ij->", "ij->j", "ii->", "i->", "i,i->", "i,i->i", "ij,j->i", "ij,ij->ij", "ij,ij->", "ij,ij->i", "ij,jk->ik", "ij,kj->ik",
        "i,j->ij", "i,i,i->i", "ij,j,j->i", "ij,ji->", "ijk->kji", "ijk,k->ij", "ijk,ijk->j",
    ]

    def op_einsum(self, src=None):
        """explicit-mode einsum over 1-3 operands; dimension letters are bound by src (placed at a
        random operand slot), the remaining operands are existing tensors of the required shape -
        including src itself, which exercises the repeated-operand path - or literal arrays"""
        fl = [h for h in self.float_tensors() if 1 <= self.t[h].val.ndim <= 3]
        if not fl:
            return None
        src = src if src is not None and src in fl else self.choice(fl)
        shp = self.t[src].val.shape
        pats = []
        for pat in self.EINSUM_PATTERNS:
            ins = pat.split("->")[0].split(",")
            for k, sub in enumerate(ins):
                if len(sub) != len(shp):
                    continue
                bind = {}
                ok = True
                for c, d in zip(sub, shp):
                    if bind.setdefault(c, d) != d:
                        ok = False
                if ok:
                    pats.append((pat, k, bind))
        if not pats:
            return None
        pat, k, bind = self.choice(pats)
        ins = pat.split("->")[0].split(",")
        for sub in ins:
            for c in sub:
                bind.setdefault(c, self.r.randint(1, 3))
        refs = []
        for j, sub in enumerate(ins):
            if j == k:
                refs.append({"t": src})
                continue
            need = tuple(bind[c] for c in sub)
            cands = [{"t": h} for h in self.float_tensors() if self.t[h].val.shape == need]
            if cands and self.coin(0.7):
                refs.append(self.choice(cands))
            else:
                refs.append({"n": enc_arr(self.rand_vals(need, "f8"))})
        p = {"subs": pat}
        if self.coin(0.15):
            p["optimize"] = True
        return self._emit_op("einsum", refs, p)

    def op_where(self, src=None):
        hs = self.float_tensors()
        if not hs:
            return None
        src = src if src is not None else self.choice(hs)
        shape = self.t[src].val.shape
        cond = self.rand_vals(self._sub_shape(shape) if self.coin(0.25) else shape, "b1")
        if self.coin(0.3):
            # NumPy takes any array as the condition (non-zero = true): 0/1 masks of integer type
            cond = cond.astype(self.choice([np.int64, np.uint8, np.int32]))
        other = self.operand_for(shape)
        refs = [{"t": src}, other]
        if self.coin(0.5):
            refs = refs[::-1]
        return self._emit_op("where", refs, {"cond": enc_arr(cond)})

    def op_clip(self, src=None):
        hs = self.float_tensors()
        if not hs:
            return None
        src = src if src is not None else self.choice(hs)
        lo = round(self.r.uniform(-2, 0), 2) + 0.005
        hi = round(self.r.uniform(0, 2), 2) + 0.005
        return self._emit_op("clip", [{"t": src}], {"lo": lo, "hi": hi})

    def op_join(self, src=None):
        hs = [h for h in self.float_tensors() if self.t[h].val.ndim >= 1]
        if not hs:
            return None
        src = src if src is not None and src in hs else self.choice(hs)
        shape = self.t[src].val.shape
        same = [h for h in hs if self.t[h].val.shape == shape]
        k = self.r.randint(1, 3)
        parts = [{"t": src}] + [{"t": self.choice(same)} for _ in range(k - 1)]
        if self.coin(0.3):
            parts.append({"n": enc_arr(self.rand_vals(shape, "f8"))})
        self.r.shuffle(parts)
        nd = len(shape)
        if self.coin(0.5):
            return self._emit_op("concatenate", parts, {"axis": self.r.randint(-nd, nd - 1)})
        return self._emit_op("stack", parts, {"axis": self.r.randint(-nd - 1, nd)})

    def op_seq(self, src=None):
        hs = self.float_tensors()
        if not hs:
            return None
        src = src if src is not None else self.choice(hs)
        shape = self.t[src].val.shape
        parts = [{"t": src}] + [self.operand_for(shape) for _ in range(self.r.randint(1, 3))]
        self.r.shuffle(parts)
        return self._emit_op(self.choice(["add_sequence", "multiply_sequence"]), parts)

    # ------------------------------------------------------------------ views
    def op_view(self, src=None, kinds=None):
        hs = self.tensors()
        if not hs:
            return None
        src = src if src is not None else self.choice(hs)
        v = self.t[src].val
        kinds = kinds or VIEWS
        for _ in range(5):
            kind = self.choice(kinds)
            p = self._view_params(kind, v)
            if p is None:
                continue
            h = self._emit_op(kind, [{"t": src}], p, view_src=src, constant=self.rand_view_const())
            if h is not None:
                return h
        return None

    def rand_view_const(self):
        if not self.cfg.get("view_const_flags"):
            return None
        return self.wchoice([(None, 12), (True, 1), (False, 1)])

    def _view_params(self, kind, v):
        nd = v.ndim
        if kind == "getitem":
            return {"index": enc_index(self.rand_basic_index(v.shape))}
        if kind == "reshape":
            n = v.size
            facs = [s for s in self._shapes_of(n)]
            shp = self.choice(facs)
            if self.coin(0.2) and len(shp) > 0 and n > 0:
                shp = list(shp)
                shp[self.r.randrange(len(shp))] = -1
            return {"shape": list(shp), "splat": self.coin(0.5)}
        if kind in ("atleast_1d", "atleast_2d", "atleast_3d"):
            return {} if nd < int(kind[8]) else None  # (otherwise the operand itself is returned)
        if kind in ("ravel", "flatten"):
            return {}
        if kind == "repeat":
            if nd == 0 or self.coin(0.3):
                return {"repeats": self.r.randint(1, 2), "axis": None}
            return {"repeats": self.r.randint(1, 2), "axis": self.r.randint(-nd, nd - 1)}
        if kind == "roll":
            if nd == 0 or self.coin(0.3):
                return {"shift": self.r.randint(-3, 3), "axis": None}
            return {"shift": self.r.randint(-3, 3), "axis": self.r.randint(-nd, nd - 1)}
        if kind == "squeeze":
            ones = [i for i, d in enumerate(v.shape) if d == 1]
            if not ones:
                return {"axis": None} if self.coin(0.03) else None  # nothing to squeeze: NumPy returns the array itself (listed C04 finding; rare on purpose)
            if self.coin(0.5):
                return {"axis": None}
            return {"axis": self.choice(ones) - (nd if self.coin(0.3) else 0)}
        if kind == "expand_dims":
            return {"axis": self.r.randint(-nd - 1, nd)}
        if kind == "transpose":
            if self.coin(0.4):
                return {"axes": None, "T": self.coin(0.5)}
            axes = list(range(nd))
            self.r.shuffle(axes)
            return {"axes": axes}
        if kind == "swapaxes":
            if nd < 1:
                return None
            return {"a1": self.r.randint(-nd, nd - 1), "a2": self.r.randint(-nd, nd - 1)}
        if kind == "moveaxis":
            if nd < 1:
                return None
            return {"src": self.r.randint(-nd, nd - 1), "dst": self.r.randint(-nd, nd - 1)}
        if kind == "broadcast_to":
            lead = [self.r.randint(1, 2) for _ in range(self.r.randint(0, 1))]
            shp = lead + [d if d != 1 or self.coin(0.5) else self.r.randint(1, 3) for d in v.shape]
            return {"shape": shp}
        if kind == "diag":
            if nd != 2 or v.shape[0] != v.shape[1]:
                return None
            return {}
        return None

    @staticmethod
    def _shapes_of(n):
        out = [(n,)]
        for a in range(1, n + 1):
            if n % a == 0:
                out.append((a, n // a))
                m = n // a
                for b in range(1, m + 1):
                    if m % b == 0 and a * b * (m // b) == n and len(out) < 40:
                        out.append((a, b, m // b))
        if n == 1:
            out.append(())
        return out

    def op_adv_getitem(self, src=None):
        hs = [h for h in self.tensors() if self.t[h].val.ndim >= 1 and self.t[h].val.size > 0]
        if not hs:
            return None
        src = src if src is not None and src in hs else self.choice(hs)
        ix = self.rand_adv_index(self.t[src].val.shape)
        if ix is None:
            return None
        return self._emit_op("getitem", [{"t": src}], {"index": enc_index(ix)}, view_src=src)

    def op_tensor_index(self, src=None):
        """x[i] with an integer *Tensor* i as the index (a fresh one, or one already used as an index)"""
        hs = [h for h in self.float_tensors() if self.t[h].val.ndim >= 1 and self.t[h].val.size > 0]
        if not hs:
            return None
        src = src if src is not None and src in hs else self.choice(hs)
        shape = self.t[src].val.shape
        form = self.choice(["bare", "bare", "tuple"] + (["col"] if len(shape) > 1 else []))
        d = shape[1] if form == "col" else shape[0]
        if d == 0:
            return None
        old = [h for h in self.idx_tensors if h in self.t and self.t[h].val.size and int(np.max(np.abs(self.t[h].val))) < d]
        if old and self.coin(0.4):
            ih = self.choice(old)
        else:
            n = self.r.randint(1, 3)
            lo = -d if self.coin(0.3) else 0
            iv = np.array([self.r.randint(lo, d - 1) for _ in range(n)], dtype=self.choice([np.int64, np.int64, np.int32]))
            ih = self.new_h()
            self.emit({"k": "leaf", "out": ih, "arr": enc_arr(iv), "constant": None})
            self.fam_id += 1
            self.t[ih] = G(iv.copy(), True, self.epoch, self.fam_id)
            self.idx_tensors.append(ih)
        return self._emit_op("getitem_t", [{"t": src}, {"t": ih}], {"form": form})

    def idx_mutate(self):
        """in-place update of a tensor that an earlier x[i] used as its index"""
        hs = [h for h in self.idx_tensors if h in self.t and self.t[h].val.size]
        if not hs:
            return None
        tgt = self.choice(hs)
        self._cow(tgt)
        g = self.t[tgt]
        if self.coin(0.6) or g.val.ndim == 0:
            k = self.choice([1, -1, 2])
            g.val += k
            self.emit({"k": "inplace", "form": "iadd", "tgt": tgt, "args": [{"c": k}]})
        else:
            pos = self.r.randint(0, g.val.shape[0] - 1)
            k = self.r.randint(0, 2)
            g.val[pos] = k
            self.emit({"k": "inplace", "form": "setitem", "tgt": tgt, "index": enc_index(pos), "args": [{"c": k}]})
        return tgt

    # ------------------------------------------------------------------ in-place
    def _cow(self, h):
        """generator-side mimic of MyGrad's behaviour for tensors that outlived their epoch: the
        target's memory is replaced by a private copy before a tracked write"""
        g = self.t[h]
        if self.tracking and g.born != self.epoch:
            g.val = g.val.copy()
            self.fam_id += 1
            g.fam = self.fam_id

    def inplace_setitem(self, tgt=None, adv_p=0.35):
        hs = self.float_tensors()
        if not hs:
            return None
        tgt = tgt if tgt is not None else self.choice(hs)
        g = self.t[tgt]
        v = g.val
        if not v.flags.writeable:
            return None
        if v.ndim >= 1 and v.size and self.coin(adv_p):
            ix = self.rand_adv_index(v.shape)
        else:
            ix = self.rand_basic_index(v.shape, allow_newaxis=self.coin(0.3))
        if ix is None:
            return None
        try:
            sel = v[ix]
        except Exception:
            return None
        sel_shape = np.shape(sel)
        val = self.operand_for(sel_shape, exclude=())
        vv = self.val_of(val)
        self._cow(tgt)
        v = self.t[tgt].val
        try:
            probe = v.copy()
            probe[ix] = vv
        except Exception:
            return None
        v[ix] = vv
        self.emit({"k": "inplace", "form": "setitem", "tgt": tgt, "index": enc_index(ix), "args": [val]})
        return tgt

    def inplace_iop(self, tgt=None):
        hs = self.float_tensors()
        if not hs:
            return None
        tgt = tgt if tgt is not None else self.choice(hs)
        g = self.t[tgt]
        if not g.val.flags.writeable:
            return None
        forms = ["iadd", "isub", "imul"] if self.exact else ["iadd", "isub", "imul", "idiv"]
        form = self.choice(forms)
        if self.coin(0.1):
            form = "ipow"
            val = {"c": self.choice([1, 2])}
        else:
            val = self.operand_for(g.val.shape)
        vv = np.asarray(self.val_of(val))
        f = {"iadd": np.add, "isub": np.subtract, "imul": np.multiply, "idiv": np.divide, "ipow": np.power}[form]
        if form == "idiv" and np.any(np.abs(vv) < 0.2):
            return None
        try:
            res = f(g.val, vv)
            if res.shape != g.val.shape or not self.ok_val(res):
                return None
        except Exception:
            return None
        self._cow(tgt)
        g = self.t[tgt]
        try:
            f(g.val, vv, out=g.val)
        except Exception:
            return None
        self.emit({"k": "inplace", "form": form, "tgt": tgt, "args": [val]})
        return tgt

    def inplace_ufunc(self, tgt=None, mask_p=0.5):
        hs = self.float_tensors()
        if not hs:
            return None
        tgt = tgt if tgt is not None else self.choice(hs)
        g = self.t[tgt]
        if not g.val.flags.writeable:
            return None
        shape = g.val.shape
        ops1 = ["neg", "square", "pos"] if self.exact else ["neg", "square", "exp", "abs", "sin", "tanh", "pos"]
        ops2 = ["add", "sub", "mul"] if self.exact else ["add", "sub", "mul", "maximum", "minimum"]
        if self.coin(0.4):
            op = self.choice(ops1)
            args = [self.operand_for(shape)]
        else:
            op = self.choice(ops2)
            args = [self.operand_for(shape), self.operand_for(shape)]
        if not any("t" in a for a in args) and self.coin(0.7):
            args[0] = {"t": tgt}
        vals = [np.asarray(self.val_of(a)) for a in args]
        mask = None
        if self.coin(mask_p):
            mask = self.rand_vals(self._sub_shape(shape) if self.coin(0.3) else shape, "b1")
        f = NP_UFUNC[op]
        try:
            res = f(*vals)
            if np.broadcast_shapes(res.shape, shape) != tuple(shape) or not self.ok_val(res):
                return None
        except Exception:
            return None
        self._cow(tgt)
        g = self.t[tgt]
        try:
            if mask is None:
                f(*vals, out=g.val)
            else:
                f(*vals, out=g.val, where=mask)
        except Exception:
            return None
        ev = {"k": "inplace", "form": "ufunc", "op": op, "tgt": tgt, "args": args, "spell": self.choice(["f", "n"])}
        if mask is not None:
            ev["where"] = enc_arr(mask)
        if self.coin(0.2):
            ev["out_tuple"] = True
        self.emit(ev)
        return tgt

    def setshape(self, tgt=None):
        hs = self.tensors()
        if not hs:
            return None
        tgt = tgt if tgt is not None else self.choice(hs)
        g = self.t[tgt]
        shp = self.choice(self._shapes_of(g.val.size))
        try:
            probe = g.val.view()
            probe.shape = shp
        except Exception:
            return None
        try:
            g.val.shape = shp
        except Exception:
            return None
        self.emit({"k": "setshape", "tgt": tgt, "shape": list(shp)})
        return tgt

    # ------------------------------------------------------------------ graph / refs
    def backward(self, tgt, seed=None):
        ev = {"k": "backward", "tgt": tgt}
        if seed is not None:
            ev["seed"] = seed
        self.emit(ev)
        if self.tracking:
            self.epoch += 1

    def clear(self, tgt):
        self.emit({"k": "clear", "tgt": tgt})
        if self.tracking:
            self.epoch += 1

    def drop_t(self, h, cycle=False):
        self.emit({"k": "drop", "kind": "T", "h": h, "cycle": bool(cycle)})
        self.t.pop(h, None)

    def drop_a(self, h, cycle=False):
        self.emit({"k": "drop", "kind": "A", "h": h, "cycle": bool(cycle)})
        self.a.pop(h, None)
        self.a_ro.pop(h, None)

    def gc(self):
        self.emit({"k": "gc"})


    # ------------------------------------------------------------------ nnet layers (tiny shapes)
    def nnet(self, layer=None):
        layers = ["softmax", "logsoftmax", "softmax_crossentropy", "softmax_focal_loss", "focal_loss", "margin_ranking_loss", "conv_nd", "max_pool", "batchnorm", "gru"]
        layer = layer or self.choice(layers)
        r = self.r
        dt = self.choice([d for d in self.dtypes if d.startswith("f")] or ["f8"])

        def L(shape, positive=False):
            return {"t": self.leaf(shape=shape, dtype=dt, constant=None, positive=positive)}

        p = {}
        N, C = r.randint(1, 3), r.randint(2, 3)
        if layer in ("softmax", "logsoftmax"):
            args = [L((N, C))]
            p = {"axis": self.choice([-1, 0, 1])}
            shape = (N, C)
        elif layer in ("softmax_crossentropy", "softmax_focal_loss"):
            args = [L((N, C)), {"n": enc_arr(np.array([r.randrange(C) for _ in range(N)], dtype=np.int64))}]
            if layer == "softmax_focal_loss":
                p = {"alpha": 1, "gamma": self.choice([0, 1, 2])}
            shape = () if layer == "softmax_crossentropy" else (N,)
        elif layer == "focal_loss":
            probs = np.array([[r.uniform(0.1, 1) for _ in range(C)] for _ in range(N)])
            probs = probs / probs.sum(axis=1, keepdims=True)
            h = self.new_h()
            self.emit({"k": "leaf", "out": h, "arr": enc_arr(probs.astype(_DTYPES[dt])), "constant": None})
            self.fam_id += 1
            self.t[h] = G(probs.astype(_DTYPES[dt]), False, self.epoch, self.fam_id)
            args = [{"t": h}, {"n": enc_arr(np.array([r.randrange(C) for _ in range(N)], dtype=np.int64))}]
            p = {"alpha": 1, "gamma": self.choice([0, 1, 2])}
            shape = (N,)
        elif layer == "margin_ranking_loss":
            args = [L((N,)), L((N,)), {"n": enc_arr(np.array([self.choice([-1, 1]) for _ in range(N)], dtype=np.int64))}]
            p = {"margin": 0.5}
            shape = ()
        elif layer == "conv_nd":
            Cin, F, Lx = r.randint(1, 2), r.randint(1, 2), r.randint(3, 4)
            args = [L((N, Cin, Lx)), L((F, Cin, 2))]
            p = {"stride": 1}
            shape = (N, F, Lx - 1)
        elif layer == "max_pool":
            args = [L((1, r.randint(1, 2), 4))]
            p = {"pool": [2], "stride": 2}
            shape = args and (1, self.t[args[0]["t"]].val.shape[1], 2)
        elif layer == "batchnorm":
            args = [L((r.randint(2, 3), C)), L((C,)), L((C,))]
            shape = self.t[args[0]["t"]].val.shape
        else:  # gru
            T, D = r.randint(2, 3), 2
            args = [L((T, N, C))]
            for _ in range(3):
                args += [L((C, D)), L((D, D)), L((D,))]
            p = {"bp_lim": None}
            shape = (T + 1, N, D)
        h = self.new_h()
        self.emit({"k": "nnet", "layer": layer, "out": h, "args": args, "p": p})
        self.fam_id += 1
        self.t[h] = G(np.zeros(shape, dtype=_DTYPES[dt]) + 0.5, False, self.epoch, self.fam_id, depth=3)
        return h
