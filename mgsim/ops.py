"""Operation vocabulary shared by the interpreter (real MyGrad), M1 (NumPy shadows) and M2 (tape).

Each OpDef knows how to run itself three ways.  `p` is the JSON-able parameter dict of an event.
Spellings: f = mygrad function, n = numpy function/ufunc applied to tensors, m = Tensor method,
o = Python operator.
"""
import numpy as np

from .codec import dec_index, dec_arr


def _ax(a):
    if isinstance(a, list):
        return tuple(a)
    return a


class OpDef:
    name = ""
    nin = 1  # number of array operands (None = variadic)
    spellings = ("f",)
    view_capable = False  # may return a view of its (first) operand
    exact = False  # exact on small integers in float64
    rearrange = False  # pure index rearrangement of operand 0 (tape: gather)

    def np(self, a, p):
        raise NotImplementedError

    def mg(self, mg, spell, a, p, kw):
        raise NotImplementedError

    def tape(self, tape, nids, p, const, vals):
        raise NotImplementedError

    def domain_ok(self, a, p):
        return True


# ------------------------------------------------------------------------------ elementwise
class EW1(OpDef):
    nin = 1

    def __init__(self, name, npf, mgname, exact=False, spellings=("f", "n"), domain=None, opr=None):
        self.name, self.npf, self.mgname, self.exact = name, npf, mgname, exact
        self.spellings = spellings
        self.domain = domain
        self.opr = opr

    def np(self, a, p):
        return self.npf(a[0])

    def mg(self, mg, spell, a, p, kw):
        if spell == "o" and self.opr is not None and not kw:
            return self.opr(a[0])
        if spell == "n" and not kw:
            return self.npf(a[0])
        return getattr(mg, self.mgname)(a[0], **kw)

    def tape(self, tape, nids, p, const, vals):
        return tape.apply("ew1", nids, {"fn": self.name}, const)

    def domain_ok(self, a, p):
        return self.domain is None or bool(np.all(self.domain(np.asarray(a[0], dtype=np.float64))))


class EW2(OpDef):
    nin = 2

    def __init__(self, name, npf, mgname, exact=False, spellings=("f", "n"), domain=None, opr=None):
        self.name, self.npf, self.mgname, self.exact = name, npf, mgname, exact
        self.spellings = spellings
        self.domain = domain
        self.opr = opr

    def np(self, a, p):
        return self.npf(a[0], a[1])

    def mg(self, mg, spell, a, p, kw):
        if spell == "o" and self.opr is not None and not kw:
            return self.opr(a[0], a[1])
        if spell == "n" and not kw:
            return self.npf(a[0], a[1])
        return getattr(mg, self.mgname)(a[0], a[1], **kw)

    def tape(self, tape, nids, p, const, vals):
        return tape.apply("ew2", nids, {"fn": self.name}, const)

    def domain_ok(self, a, p):
        return self.domain is None or bool(self.domain(np.asarray(a[0], dtype=np.float64), np.asarray(a[1], dtype=np.float64)))


# ------------------------------------------------------------------------------ reductions
class Reduce(OpDef):
    nin = 1
    spellings = ("f", "n", "m")

    def __init__(self, name, exact=False, domain=None):
        self.name, self.exact, self.domain = name, exact, domain

    def _kw(self, p):
        kw = {}
        if p.get("axis", None) is not None:
            kw["axis"] = _ax(p["axis"])
        if p.get("keepdims"):
            kw["keepdims"] = True
        if self.name in ("var", "std") and p.get("ddof"):
            kw["ddof"] = p["ddof"]
        return kw

    def np(self, a, p):
        return np.asarray(getattr(np, self.name)(a[0], **self._kw(p)))

    def mg(self, mg, spell, a, p, kw):
        k = dict(self._kw(p))
        k.update(kw)
        if spell == "m":
            return getattr(a[0], self.name)(**k)
        if spell == "n" and not kw:
            return getattr(np, self.name)(a[0], **k)
        return getattr(mg, self.name)(a[0], **k)

    def tape(self, tape, nids, p, const, vals):
        return tape.apply(
            "reduce",
            nids,
            {"fn": self.name, "axis": _ax(p.get("axis")), "keepdims": bool(p.get("keepdims")), "ddof": p.get("ddof", 0)},
            const,
        )

    def domain_ok(self, a, p):
        return self.domain is None or bool(self.domain(np.asarray(a[0], dtype=np.float64), p))


class CumSum(OpDef):
    name = "cumsum"
    nin = 1
    spellings = ("f", "n", "m")
    exact = True

    def np(self, a, p):
        return np.cumsum(a[0], axis=p.get("axis"))

    def mg(self, mg, spell, a, p, kw):
        if spell == "m":
            return a[0].cumsum(axis=p.get("axis"), **kw)
        if spell == "n" and not kw:
            return np.cumsum(a[0], axis=p.get("axis"))
        return mg.cumsum(a[0], axis=p.get("axis"), **kw)

    def tape(self, tape, nids, p, const, vals):
        return tape.apply("cumsum", nids, {"axis": p.get("axis")}, const)


class CumProd(CumSum):
    name = "cumprod"
    exact = False

    def np(self, a, p):
        return np.cumprod(a[0], axis=p.get("axis"))

    def mg(self, mg, spell, a, p, kw):
        if spell == "m":
            return a[0].cumprod(axis=p.get("axis"), **kw)
        if spell == "n" and not kw:
            return np.cumprod(a[0], axis=p.get("axis"))
        return mg.cumprod(a[0], axis=p.get("axis"), **kw)

    def tape(self, tape, nids, p, const, vals):
        return tape.apply("cumprod", nids, {"axis": p.get("axis")}, const)

    def domain_ok(self, a, p):
        x = np.asarray(a[0], dtype=np.float64)
        return bool(np.all(np.abs(x) > 0.2) and np.all(np.abs(x) < 3))


class Norm(OpDef):
    """mg.linalg.norm: vector p-norms along one axis (or of a 1-d operand)"""

    name = "norm"
    nin = 1
    spellings = ("f",)

    def np(self, a, p):
        return np.asarray(np.linalg.norm(a[0], ord=p.get("ord"), axis=p.get("axis"), keepdims=bool(p.get("keepdims"))))

    def mg(self, mg, spell, a, p, kw):
        return mg.linalg.norm(a[0], ord=p.get("ord"), axis=p.get("axis"), keepdims=bool(p.get("keepdims")), **kw)

    def tape(self, tape, nids, p, const, vals):
        o = p.get("ord") or 2
        ax, kd = p.get("axis"), bool(p.get("keepdims"))
        c = lambda x: tape.leaf(np.asarray(float(x)), True)  # noqa: E731
        if o == 1:
            n1 = tape.apply("ew1", nids, {"fn": "abs"}, const)
            return tape.apply("reduce", [n1], {"fn": "sum", "axis": ax, "keepdims": kd}, const)
        if o == 2:
            n1 = tape.apply("ew1", nids, {"fn": "square"}, const)
            n2 = tape.apply("reduce", [n1], {"fn": "sum", "axis": ax, "keepdims": kd}, const)
            return tape.apply("ew1", [n2], {"fn": "sqrt"}, const)
        n1 = tape.apply("ew1", nids, {"fn": "abs"}, const)
        n2 = tape.apply("ew2", [n1, c(o)], {"fn": "power"}, const)
        n3 = tape.apply("reduce", [n2], {"fn": "sum", "axis": ax, "keepdims": kd}, const)
        return tape.apply("ew2", [n3, c(1.0 / o)], {"fn": "power"}, const)

    def domain_ok(self, a, p):
        x = np.asarray(a[0], dtype=np.float64)
        return bool(x.size and np.all(np.abs(x) > 0.1))


class MatMul(OpDef):
    name = "matmul"
    nin = 2
    spellings = ("f", "n", "o")
    exact = True

    def np(self, a, p):
        return np.asarray(np.matmul(a[0], a[1]))

    def mg(self, mg, spell, a, p, kw):
        if spell == "o" and not kw:
            return a[0] @ a[1]
        if spell == "n" and not kw:
            return np.matmul(a[0], a[1])
        return mg.matmul(a[0], a[1], **kw)

    def tape(self, tape, nids, p, const, vals):
        return tape.apply("matmul", nids, {}, const)


class MultiMatmul(OpDef):
    """mg.multi_matmul([a, b, c, ...]) (a composite: MyGrad picks the cheapest parenthesisation and
    widens 1-D end operands itself); the reference is the left fold of matmul"""

    name = "multi_matmul"
    nin = None
    spellings = ("f",)
    exact = True
    assoc_free = True  # the parenthesisation is the implementation's choice: values agree up to rounding only

    def np(self, a, p):
        return np.asarray(np.linalg.multi_dot([np.asarray(x) for x in a]))

    def mg(self, mg, spell, a, p, kw):
        return mg.multi_matmul(list(a), **kw)

    def tape(self, tape, nids, p, const, vals):
        cur = nids[0]
        for k, q in enumerate(nids[1:]):
            last = k == len(nids) - 2
            cur = tape.apply("matmul", [cur, q], {}, const if last else all(tape.nodes[x].const for x in (cur, q)))
        return cur


class Einsum(OpDef):
    name = "einsum"
    nin = None
    spellings = ("f", "n")
    exact = True
    view_capable = True

    def np(self, a, p):
        # (optimize=True changes NumPy's contraction order, hence the last bits: same call on both sides)
        return np.einsum(p["subs"], *a, optimize=True) if p.get("optimize") else np.einsum(p["subs"], *a)

    def mg(self, mg, spell, a, p, kw):
        if p.get("optimize"):
            kw = dict(kw, optimize=True)
        if spell == "n" and set(kw) <= {"optimize"}:
            return np.einsum(p["subs"], *a, **kw)
        return mg.einsum(p["subs"], *a, **kw)

    def ids(self, parent_ids, p):
        return np.asarray(np.einsum(p["subs"], parent_ids))

    def tape(self, tape, nids, p, const, vals):
        return tape.apply("einsum", nids, {"subs": p["subs"]}, const)


class Where(OpDef):
    name = "where"
    nin = 2
    spellings = ("f", "n")
    exact = True

    def np(self, a, p):
        return np.where(dec_arr(p["cond"]), a[0], a[1])

    def mg(self, mg, spell, a, p, kw):
        c = dec_arr(p["cond"])
        if spell == "n" and not kw:
            return np.where(c, a[0], a[1])
        return mg.where(c, a[0], a[1], **kw)

    def tape(self, tape, nids, p, const, vals):
        return tape.apply("where", nids, {"cond": dec_arr(p["cond"])}, const)


class Clip(OpDef):
    name = "clip"
    nin = 1
    spellings = ("f", "n", "m")

    def np(self, a, p):
        # MyGrad wraps the bounds in (float64) constant tensors: mirror that, dtype promotion of
        # Python scalars is C03's subject
        return np.clip(a[0], np.asarray(p["lo"]), np.asarray(p["hi"]))

    def mg(self, mg, spell, a, p, kw):
        if spell == "m":
            return a[0].clip(p["lo"], p["hi"], **kw)
        if spell == "n" and not kw:
            return np.clip(a[0], p["lo"], p["hi"])
        return mg.clip(a[0], p["lo"], p["hi"], **kw)

    def tape(self, tape, nids, p, const, vals):
        return tape.apply("clip", nids, {"lo": p["lo"], "hi": p["hi"]}, const)


class Join(OpDef):
    nin = None
    spellings = ("f", "n")
    exact = True

    def __init__(self, name):
        self.name = name

    def np(self, a, p):
        return getattr(np, self.name)(list(a), axis=p.get("axis", 0))

    def mg(self, mg, spell, a, p, kw):
        if spell == "n" and not kw:
            return getattr(np, self.name)(list(a), axis=p.get("axis", 0))
        return getattr(mg, self.name)(list(a), axis=p.get("axis", 0), **kw)

    def tape(self, tape, nids, p, const, vals):
        return tape.apply("concat" if self.name == "concatenate" else "stack", nids, {"axis": p.get("axis", 0)}, const)


class SeqOp(OpDef):
    """add_sequence / multiply_sequence (operand order is a schedule dimension)"""

    nin = None
    spellings = ("f",)
    exact = True

    def __init__(self, name, fn):
        self.name, self.fn = name, fn

    def np(self, a, p):
        # (no NumPy namesake: the reference is the documented fold, spelled the way MyGrad spells
        # it - Python's sum() starts from the int 0, which matters for dtype promotion only)
        if self.fn == "add":
            return np.asarray(sum(np.asarray(x) for x in a))
        out = np.asarray(a[0])
        for x in a[1:]:
            out = out * np.asarray(x)
        return np.asarray(out)

    def mg(self, mg, spell, a, p, kw):
        return getattr(mg, self.name)(*a, **kw)

    def tape(self, tape, nids, p, const, vals):
        cur = nids[0]
        for k, q in enumerate(nids[1:]):
            last = k == len(nids) - 2
            cur = tape.apply("ew2", [cur, q], {"fn": self.fn}, const if last else all(tape.nodes[x].const for x in (cur, q)))
        return cur


# ------------------------------------------------------------------------------ rearrangements
class Rearr(OpDef):
    """pure index rearrangement of operand 0; the tape treats it as a gather with ids obtained by
    running the very same NumPy call on an index array."""

    nin = 1
    rearrange = True
    exact = True

    def __init__(self, name, npcall, mgcall, spellings=("f", "n", "m"), view_capable=True):
        self.name, self.npcall, self.mgcall = name, npcall, mgcall
        self.spellings = spellings
        self.view_capable = view_capable

    def np(self, a, p):
        return self.npcall(a[0], p)

    def mg(self, mg, spell, a, p, kw):
        return self.mgcall(mg, spell, a[0], p, kw)

    def ids(self, parent_ids, p):
        return np.asarray(self.npcall(parent_ids, p))

    def tape(self, tape, nids, p, const, vals):
        shape = tape.nodes[nids[0]].val.shape
        ids = np.arange(int(np.prod(shape)) if len(shape) else 1, dtype=np.int64).reshape(shape)
        return tape.apply("gather", nids, {"ids": self.ids(ids, p)}, const)


class GetItemT(OpDef):
    """x[i] where the index i is itself an integer Tensor (operand 1): MyGrad keeps the index object
    on the recorded op but does not treat it as a graph input.  The functional model uses the
    index *values at the time of the call*."""

    name = "getitem_t"
    nin = 2
    exact = True
    spellings = ("o",)
    unlocked_args = (1,)  # the index tensor's memory is not an operand MyGrad locks

    @staticmethod
    def _ix(i, p):
        f = p.get("form", "bare")
        if f == "tuple":
            return (i,)
        if f == "col":
            return (slice(None), i)
        return i

    def np(self, a, p):
        return a[0][self._ix(np.array(a[1], copy=True), p)]

    def mg(self, mg, spell, a, p, kw):
        return a[0][self._ix(a[1], p)]

    def tape(self, tape, nids, p, const, vals):
        shape = tape.nodes[nids[0]].val.shape
        ids = np.arange(int(np.prod(shape)) if len(shape) else 1, dtype=np.int64).reshape(shape)
        iv = np.asarray(tape.nodes[nids[1]].val)
        iv = iv.astype(bool) if p.get("bool") else iv.astype(np.int64)
        return tape.apply("gather", [nids[0]], {"ids": np.asarray(ids[self._ix(iv, p)])}, const)


def _gi_np(x, p):
    return x[dec_index(p["index"])]


def _gi_mg(mg, spell, t, p, kw):
    return t[dec_index(p["index"])]


def _reshape_mg(mg, spell, t, p, kw):
    s = tuple(p["shape"])
    if spell == "m":
        return t.reshape(*s, **kw) if (p.get("splat") and len(s)) else t.reshape(s, **kw)
    if spell == "n" and not kw:
        return np.reshape(t, s)
    return mg.reshape(t, s, **kw)


def _simple(fname, args=lambda p: (), method=True, prop=None):
    def mgcall(mg, spell, t, p, kw):
        a = args(p)
        if spell == "m" and prop is not None and not kw and not a:
            return getattr(t, prop)
        if spell == "m" and method:
            return getattr(t, fname)(*a, **kw)
        if spell == "n" and not kw:
            return getattr(np, fname)(t, *a)
        return getattr(mg, fname)(t, *a, **kw)

    return mgcall


def _transpose_np(x, p):
    return np.transpose(x, p.get("axes"))


def _transpose_mg(mg, spell, t, p, kw):
    axes = p.get("axes")
    if spell == "m":
        if axes is None:
            return t.T if (not kw and p.get("T")) else t.transpose(**kw)
        return t.transpose(*axes, **kw)
    if spell == "n" and not kw:
        return np.transpose(t, axes)
    if axes is None:
        return mg.transpose(t, **kw)
    return mg.transpose(t, *axes, **kw)


OPS = {}


def _reg(o):
    OPS[o.name] = o


import operator as _op  # noqa: E402

_reg(EW1("neg", np.negative, "negative", exact=True, spellings=("f", "n", "o"), opr=_op.neg))
_reg(EW1("pos", np.positive, "positive", exact=True, spellings=("f", "n", "o"), opr=_op.pos))
_reg(EW1("square", np.square, "square", exact=True))
_reg(EW1("abs", np.abs, "abs", spellings=("f", "n")))
_reg(EW1("exp", np.exp, "exp", domain=lambda a: np.abs(a) < 6))
_reg(EW1("log", np.log, "log", domain=lambda a: a > 0.1))
_reg(EW1("sin", np.sin, "sin"))
_reg(EW1("cos", np.cos, "cos"))
_reg(EW1("tanh", np.tanh, "tanh"))
_reg(EW1("sqrt", np.sqrt, "sqrt", domain=lambda a: a > 0.1))
_far = lambda lo, hi=None: (lambda a: (np.abs(a) > lo) & ((np.abs(a) < hi) if hi is not None else True))  # noqa: E731
for _n, _dom in [
    ("arccos", lambda a: np.abs(a) < 0.9), ("arcsin", lambda a: np.abs(a) < 0.9), ("arctan", None), ("arccosh", lambda a: a > 1.1), ("arcsinh", None),
    ("arctanh", lambda a: np.abs(a) < 0.9), ("cbrt", _far(0.1)), ("cosh", lambda a: np.abs(a) < 5), ("sinh", lambda a: np.abs(a) < 5),
    ("tan", lambda a: np.abs(np.cos(a)) > 0.2), ("exp2", lambda a: np.abs(a) < 8), ("expm1", lambda a: np.abs(a) < 6), ("log10", lambda a: a > 0.1),
    ("log2", lambda a: a > 0.1), ("log1p", lambda a: a > -0.8), ("reciprocal", _far(0.2)),
]:
    _reg(EW1(_n, getattr(np, _n), _n, domain=_dom))
# MyGrad-only names (no NumPy namesake: the reference is the textbook definition)
for _n, _f, _dom in [
    ("cot", lambda a: 1 / np.tan(a), lambda a: (np.abs(np.sin(a)) > 0.2) & (np.abs(np.cos(a)) > 0.05)),
    ("sec", lambda a: 1 / np.cos(a), lambda a: np.abs(np.cos(a)) > 0.2),
    ("csc", lambda a: 1 / np.sin(a), lambda a: np.abs(np.sin(a)) > 0.2),
    ("coth", lambda a: 1 / np.tanh(a), _far(0.2, 5)),
    ("sech", lambda a: 1 / np.cosh(a), lambda a: np.abs(a) < 5),
    ("csch", lambda a: 1 / np.sinh(a), _far(0.2, 5)),
    ("arccot", lambda a: np.arctan(1 / a), _far(0.2)),
    ("arccoth", lambda a: np.arctanh(1 / a), _far(1.1)),
    ("arccsc", lambda a: np.arcsin(1 / a), _far(1.1)),
    ("arcsec", lambda a: np.arccos(1 / a), _far(1.1)),
    ("arccsch", lambda a: np.arcsinh(1 / a), _far(0.2)),
]:
    _reg(EW1(_n, _f, _n, spellings=("f",), domain=_dom))
_reg(EW1("sinc", np.sinc, "sinc", spellings=("f",), domain=lambda a: np.abs(a) > 0.1))  # np.sinc is a plain function, not a ufunc MyGrad overrides
_reg(EW2("arctan2", np.arctan2, "arctan2", domain=lambda a, b: np.all(a * a + b * b > 0.05)))
_reg(EW2("logaddexp", np.logaddexp, "logaddexp", domain=lambda a, b: np.all(np.abs(a) < 20) and np.all(np.abs(b) < 20)))
_reg(EW2("logaddexp2", np.logaddexp2, "logaddexp2", domain=lambda a, b: np.all(np.abs(a) < 20) and np.all(np.abs(b) < 20)))
_reg(EW2("add", np.add, "add", exact=True, spellings=("f", "n", "o"), opr=_op.add))
_reg(EW2("sub", np.subtract, "subtract", exact=True, spellings=("f", "n", "o"), opr=_op.sub))
_reg(EW2("mul", np.multiply, "multiply", exact=True, spellings=("f", "n", "o"), opr=_op.mul))
_reg(
    EW2(
        "div",
        np.divide,
        "divide",
        spellings=("f", "n", "o"),
        opr=_op.truediv,
        domain=lambda a, b: np.all(np.abs(b) > 0.2),
    )
)
_reg(EW2("maximum", np.maximum, "maximum"))
_reg(EW2("minimum", np.minimum, "minimum"))
_reg(
    EW2(
        "power",
        np.power,
        "power",
        exact=True,
        spellings=("f", "n", "o"),
        opr=_op.pow,
        domain=lambda a, b: np.all(np.abs(a) < 30) and np.all(np.abs(a) > 0.05),
    )
)
_reg(Reduce("sum", exact=True))
_reg(Reduce("mean"))
_reg(Reduce("prod", exact=True, domain=lambda a, p: np.all(np.abs(a) < 8)))
_reg(Reduce("max"))
_reg(Reduce("min"))
_reg(Reduce("var", domain=lambda a, p: a.size > 1))
_reg(Reduce("std", domain=lambda a, p: a.size > 1 and np.all(np.std(a, axis=_ax(p.get("axis")), ddof=0) > 0.05)))
_reg(CumSum())
_reg(CumProd())
_reg(Norm())
_reg(MatMul())
_reg(MultiMatmul())
_reg(Einsum())
_reg(Where())
_reg(Clip())
_reg(Join("concatenate"))
_reg(Join("stack"))
_reg(SeqOp("add_sequence", "add"))
_reg(SeqOp("multiply_sequence", "mul"))

_reg(Rearr("getitem", _gi_np, _gi_mg, spellings=("o",)))
_reg(GetItemT())
_reg(Rearr("reshape", lambda x, p: np.reshape(x, tuple(p["shape"])), _reshape_mg))
_reg(Rearr("ravel", lambda x, p: np.ravel(x), _simple("ravel")))
_reg(Rearr("flatten", lambda x, p: x.flatten(), _simple("flatten"), spellings=("m",), view_capable=False))
_reg(
    Rearr(
        "squeeze",
        lambda x, p: np.squeeze(x, axis=_ax(p.get("axis"))),
        lambda mg, spell, t, p, kw: (
            t.squeeze(axis=_ax(p.get("axis")), **kw)
            if spell == "m"
            else (np.squeeze(t, axis=_ax(p.get("axis"))) if (spell == "n" and not kw) else mg.squeeze(t, axis=_ax(p.get("axis")), **kw))
        ),
    )
)
_reg(
    Rearr(
        "expand_dims",
        lambda x, p: np.expand_dims(x, p["axis"]),
        _simple("expand_dims", lambda p: (p["axis"],), method=False),
        spellings=("f", "n"),
    )
)
_reg(Rearr("transpose", _transpose_np, _transpose_mg))
_reg(
    Rearr(
        "swapaxes",
        lambda x, p: np.swapaxes(x, p["a1"], p["a2"]),
        _simple("swapaxes", lambda p: (p["a1"], p["a2"])),
    )
)
_reg(
    Rearr(
        "moveaxis",
        lambda x, p: np.moveaxis(x, p["src"], p["dst"]),
        _simple("moveaxis", lambda p: (p["src"], p["dst"]), method=False),
        spellings=("f", "n"),
    )
)
_reg(
    Rearr(
        "broadcast_to",
        lambda x, p: np.broadcast_to(x, tuple(p["shape"])),
        _simple("broadcast_to", lambda p: (tuple(p["shape"]),), method=False),
        spellings=("f", "n"),
    )
)
_reg(
    Rearr(
        "diag",
        lambda x, p: np.einsum("ii->i", x),
        lambda mg, spell, t, p, kw: (np.einsum("ii->i", t) if (spell == "n" and not kw) else mg.einsum("ii->i", t, **kw)),
        spellings=("f", "n"),
    )
)
_reg(
    Rearr(
        "roll",
        lambda x, p: np.roll(x, p["shift"], axis=p.get("axis")),
        _simple("roll", lambda p: (p["shift"], p.get("axis")), method=False),
        spellings=("f", "n"),
        view_capable=False,
    )
)

_reg(
    Rearr(
        "repeat",
        lambda x, p: np.repeat(x, p["repeats"], axis=p.get("axis")),
        _simple("repeat", lambda p: (p["repeats"], p.get("axis")), method=False),
        spellings=("f", "n"),
        view_capable=False,
    )
)
for _k in (1, 2, 3):
    _reg(
        Rearr(
            f"atleast_{_k}d",
            (lambda k: lambda x, p: getattr(np, f"atleast_{k}d")(x))(_k),
            _simple(f"atleast_{_k}d", method=False),
            spellings=("f", "n"),
        )
    )

# ufuncs that accept out= / where= (for in-place events)
UFUNC_OUT = {
    "add": "add",
    "sub": "subtract",
    "mul": "multiply",
    "div": "divide",
    "maximum": "maximum",
    "minimum": "minimum",
    "neg": "negative",
    "square": "square",
    "exp": "exp",
    "abs": "abs",
    "sin": "sin",
    "tanh": "tanh",
    "pos": "positive",
}
NP_UFUNC = {
    "add": np.add,
    "sub": np.subtract,
    "mul": np.multiply,
    "div": np.divide,
    "maximum": np.maximum,
    "minimum": np.minimum,
    "neg": np.negative,
    "square": np.square,
    "exp": np.exp,
    "abs": np.abs,
    "sin": np.sin,
    "tanh": np.tanh,
    "pos": np.positive,
}
EXACT_OPS = {k for k, v in OPS.items() if v.exact}
