"""setup smoke, determinism self-test (DESIGN 2.11), sensitivity (2.12)."""
import json
import os
import subprocess
import sys
import time


def setup_smoke():
    from . import env  # noqa: F401  (asserts mygrad comes from the working tree)
    from .props import PROPS, gen_history, h64, run_history

    t0 = time.time()
    n = 0
    for pid in sorted(PROPS):
        for i in range(3):
            s = h64(1, pid, i)
            a = run_history(gen_history(pid, s)).digest()
            b = run_history(gen_history(pid, s)).digest()
            if a != b:
                print(f"HARNESS-ERROR nondeterministic digest for {pid} seed {s}")
                return 2
            n += 1
    print(f"setup ok: mygrad from {env.mg.__file__}; {n} histories replayed twice with equal digests in {time.time()-t0:.1f}s")
    return 0


def determinism(seed, n, only=None):
    """every run seed executed in different processes, at two worker counts and under another
    PYTHONHASHSEED; digests diffed per seed."""
    from .env import pinned_env
    from .props import PROPS
    from .runner import CHECK, PY
    import tempfile, shutil

    bad = 0
    total = 0
    for pid in sorted(PROPS):
        if only and pid != only:
            continue
        results = []
        for workers, hs in ((1, 0), (8, 0), (8, 12345)):
            tmp = tempfile.mkdtemp(prefix="mgsim-det-")
            per = (n + workers - 1) // workers
            procs = []
            for k in range(workers):
                outp = os.path.join(tmp, f"w{k}.jsonl")
                cmd = [PY, CHECK, "--worker", "--prop", pid, "--seed", str(seed), "--start", str(k), "--stride", str(workers), "--budget", "100000", "--max-runs", str(per), "--digests", "--out", outp]
                procs.append((subprocess.Popen(cmd, env=pinned_env(hashseed=hs), stdout=subprocess.DEVNULL, stderr=subprocess.PIPE, text=True), outp))
            d = {}
            for p, outp in procs:
                _, err = p.communicate()
                if p.returncode != 0:
                    print(f"HARNESS-ERROR worker failed: {err[-800:]}")
                    return 2
                for line in open(outp):
                    r = json.loads(line)
                    if r["type"] == "digest" and r["idx"] < n:
                        d[r["idx"]] = r["digest"]
            shutil.rmtree(tmp, ignore_errors=True)
            results.append(d)
        base = results[0]
        for other, label in ((results[1], "8 workers"), (results[2], "8 workers, PYTHONHASHSEED=12345")):
            for idx, dg in base.items():
                total += 1
                if other.get(idx) != dg:
                    bad += 1
                    if bad <= 10:
                        print(f"DIVERGENCE {pid} idx={idx} ({label})")
        print(f"{pid}: {len(base)} seeds x 3 configurations compared")
    print(f"determinism: {total} comparisons, {bad} divergences")
    return 0 if bad == 0 else 2
