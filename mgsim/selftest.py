"""setup smoke, determinism self-test (DESIGN 2.11), sensitivity (2.12)."""
import json
import os
import subprocess
import sys
import time


def setup_smoke():
    from . import env  # noqa: F401  (asserts mygrad comes from the working tree)
    from .props import PROPS, gen_history, h64, run_history

    t0 = time.time()
    n = 0
    for pid in sorted(PROPS):
        for i in range(3):
            s = h64(1, pid, i)
            a = run_history(gen_history(pid, s)).digest()
            b = run_history(gen_history(pid, s)).digest()
            if a != b:
                print(f"HARNESS-ERROR nondeterministic digest for {pid} seed {s}")
                return 2
            n += 1
    print(f"setup ok: mygrad from {env.mg.__file__}; {n} histories replayed twice with equal digests in {time.time()-t0:.1f}s")
    return 0


def determinism(seed, n, only=None):
    """every run seed executed in different processes, at two worker counts and under another
    PYTHONHASHSEED; digests diffed per seed."""
    from .env import pinned_env
    from .props import PROPS
    from .runner import CHECK, PY
    import tempfile, shutil

    bad = 0
    total = 0
    for pid in sorted(PROPS):
        if only and pid != only:
            continue
        results = []
        for workers, hs in ((1, 0), (8, 0), (8, 12345)):
            tmp = tempfile.mkdtemp(prefix="mgsim-det-")
            per = (n + workers - 1) // workers
            procs = []
            for k in range(workers):
                outp = os.path.join(tmp, f"w{k}.jsonl")
                cmd = [PY, CHECK, "--worker", "--prop", pid, "--seed", str(seed), "--start", str(k), "--stride", str(workers), "--budget", "100000", "--max-runs", str(per), "--digests", "--out", outp]
                procs.append((subprocess.Popen(cmd, env=pinned_env(hashseed=hs), stdout=subprocess.DEVNULL, stderr=subprocess.PIPE, text=True), outp))
            d = {}
            for p, outp in procs:
                _, err = p.communicate()
                if p.returncode != 0:
                    print(f"HARNESS-ERROR worker failed: {err[-800:]}")
                    return 2
                for line in open(outp):
                    r = json.loads(line)
                    if r["type"] == "digest" and r["idx"] < n:
                        d[r["idx"]] = r["digest"]
            shutil.rmtree(tmp, ignore_errors=True)
            results.append(d)
        base = results[0]
        for other, label in ((results[1], "8 workers"), (results[2], "8 workers, PYTHONHASHSEED=12345")):
            for idx, dg in base.items():
                total += 1
                if other.get(idx) != dg:
                    bad += 1
                    if bad <= 10:
                        print(f"DIVERGENCE {pid} idx={idx} ({label})")
        print(f"{pid}: {len(base)} seeds x 3 configurations compared")
    print(f"determinism: {total} comparisons, {bad} divergences")
    return 0 if bad == 0 else 2


def sensitivity(seed, only=None, budget=30):
    """DESIGN 2.12: every patch under /verif/mutants and /verif/seeded/*/patch.diff is applied to a
    scratch copy of /repo/src (removed afterwards) and the quick check of its property must report
    an unlisted violation.  Results go to /verif/evidence/sensitivity.json (not a property check)."""
    import glob, shutil, tempfile
    from .env import pinned_env
    from .runner import CHECK, PY, VERIF, EVIDENCE_DIR

    items = []
    meta = {}
    mp = os.path.join(VERIF, "mutants", "meta.json")
    if os.path.exists(mp):
        meta = json.load(open(mp))
    for p in sorted(glob.glob(os.path.join(VERIF, "mutants", "*.patch"))):
        mid = os.path.basename(p)[:-6]
        m = meta.get(mid, {})
        for prop in m.get("checks", [m.get("property", mid.split("-")[0])]):
            items.append((mid, prop, p, 1, m.get("expect_detect", True)))
    for d in sorted(glob.glob(os.path.join(VERIF, "seeded", "*"))):
        p = os.path.join(d, "patch.diff")
        mf = os.path.join(d, "meta.json")
        if os.path.exists(p) and os.path.exists(mf):
            m = json.load(open(mf))
            for prop in m.get("checks", [m["property"]]):
                items.append((os.path.basename(d), prop, p, 1, m.get("expect_detect", True)))
    results = []
    for mid, prop, patch, strip, expect in items:
        if only and only not in (mid, prop):
            continue
        d = tempfile.mkdtemp(prefix="mgsim-mut-")
        try:
            os.makedirs(os.path.join(d, "repo"))
            shutil.copytree("/repo/src", os.path.join(d, "repo", "src"))
            r = subprocess.run(["patch", "-p1", "-s", "-i", patch], cwd=os.path.join(d, "repo"), capture_output=True, text=True)
            if r.returncode != 0:
                results.append({"mutant": mid, "property": prop, "status": "patch_failed", "detail": (r.stdout + r.stderr)[-300:]})
                print(f"{mid:50s} {prop}  PATCH FAILED")
                continue
            env = pinned_env({"MGSIM_REPO_SRC": os.path.join(d, "repo", "src"), "MGSIM_NO_EVIDENCE": "1"})
            t0 = time.time()
            r = subprocess.run([PY, CHECK, prop, "--budget", str(budget), "--seed", str(seed)], env=env, capture_output=True, text=True, cwd=VERIF)
            viol = [l for l in r.stdout.splitlines() if l.startswith("violation:")]
            status = {0: "missed", 1: "detected", 2: "harness_error"}.get(r.returncode, f"exit{r.returncode}")
            results.append({"mutant": mid, "property": prop, "status": status, "expected_detect": expect, "wall_s": round(time.time() - t0, 1), "first_violation": viol[0][:300] if viol else None})
            print(f"{mid:50s} {prop}  {status:14s} {viol[0][:150] if viol else ''}")
        finally:
            shutil.rmtree(d, ignore_errors=True)
    if not only:
        os.makedirs(EVIDENCE_DIR, exist_ok=True)
        json.dump({"seed": seed, "budget_s": budget, "note": "per change: detected when any of its listed checks reports an unlisted violation; the first listed check is the property the change was written against", "results": results}, open(os.path.join(EVIDENCE_DIR, "sensitivity.json"), "w"), indent=1)
    # a change may list several checks (the property it was written against first, then others that
    # were seen to catch it as well): it counts as detected when ANY of them reports it
    groups = {}
    for r in results:
        g = groups.setdefault(r["mutant"], {"expect": r.get("expected_detect", True), "detected": False})
        g["detected"] = g["detected"] or r["status"] == "detected"
    bad = sorted(m for m, g in groups.items() if g["detected"] != g["expect"])
    print(f"sensitivity: {len(groups)} changes ({len(results)} check runs), {len(groups) - len(bad)} as expected, {len(bad)} not: {bad}")
    return 0
