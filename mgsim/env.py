"""Pinned environment + the seams of DESIGN.md 2.4 (attached from outside; /repo is untouched).

Import this module before anything else: it pins the environment variables, makes sure the
interpreter hash seed is fixed (re-exec), puts /repo/src first on sys.path and imports mygrad.
"""
import os
import sys

REPO_SRC = os.environ.get("MGSIM_REPO_SRC", "/repo/src")

_PINNED = {
    "PYTHONHASHSEED": "0",
    "OMP_NUM_THREADS": "1",
    "OPENBLAS_NUM_THREADS": "1",
    "MKL_NUM_THREADS": "1",
    "NUMBA_DISABLE_JIT": "1",
    "PYTHONWARNINGS": "ignore",
    "PYTHONDONTWRITEBYTECODE": "1",
}


def pinned_env(extra=None, hashseed=None):
    env = dict(os.environ)
    env.update(_PINNED)
    env.pop("MYGRAD_MEM_GUARD", None)
    if hashseed is not None:
        env["PYTHONHASHSEED"] = str(hashseed)
    if extra:
        env.update(extra)
    return env


def ensure_pinned():
    """Called by worker entry points: the process must have been started with the pinned env."""
    for k, v in _PINNED.items():
        if k == "PYTHONHASHSEED":
            if os.environ.get(k) is None:
                raise RuntimeError("worker started without PYTHONHASHSEED")
            continue
        if os.environ.get(k) != v:
            raise RuntimeError(f"worker started without pinned {k}")


if REPO_SRC not in sys.path:
    sys.path.insert(0, REPO_SRC)

import copy
import gc  # noqa: E402
import warnings  # noqa: E402

warnings.simplefilter("ignore")

import numpy as np  # noqa: E402

np.seterr(all="ignore")

import mygrad as mg  # noqa: E402
import mygrad._utils.graph_tracking as _track  # noqa: E402
import mygrad._utils.lock_management as _mem  # noqa: E402
from mygrad.operation_base import Operation  # noqa: E402
from mygrad.errors import InvalidBackprop  # noqa: E402

assert os.path.realpath(mg.__file__).startswith(os.path.realpath(REPO_SRC)), (
    "mygrad was not imported from the working tree",
    mg.__file__,
)

Tensor = mg.Tensor

# --------------------------------------------------------------------------------------
# S3: simulated allocator behind lock_management.id
# --------------------------------------------------------------------------------------
import weakref  # noqa: E402
import builtins  # noqa: E402


class SimIdAllocator:
    """id() replacement for mygrad._utils.lock_management.

    Guarantee kept (the only one CPython's id() gives): two simultaneously live objects never
    share an id.  Ids of dead objects are re-issued according to `policy`:
      never  - fresh ids only
      lifo   - most recently freed id first (pymalloc's typical behaviour)
      random - a PRNG-chosen freed id
    """

    def __init__(self):
        self.reset("off", None)

    def reset(self, policy, rng):
        self.policy = policy
        self.rng = rng
        self._by_real = {}  # real id -> (weakref, simid)
        self._free = []
        self._next = 1000
        self.reuses = 0
        self.calls = 0

    def _on_dead(self, real, simid):
        ent = self._by_real.get(real)
        if ent is not None and ent[1] == simid and ent[0]() is None:
            del self._by_real[real]
            self._free.append(simid)

    def __call__(self, obj):
        if self.policy == "off":
            return builtins.id(obj)
        self.calls += 1
        real = builtins.id(obj)
        ent = self._by_real.get(real)
        if ent is not None:
            if ent[0]() is obj:
                return ent[1]
            # stale entry (object died, callback not yet run)
            del self._by_real[real]
            self._free.append(ent[1])
        simid = None
        if self._free and self.policy in ("lifo", "random"):
            if self.policy == "lifo":
                simid = self._free.pop()
            else:
                simid = self._free.pop(self.rng.randrange(len(self._free)))
            self.reuses += 1
        if simid is None:
            simid = self._next
            self._next += 8
        try:
            wr = weakref.ref(obj, lambda _w, real=real, simid=simid: self._on_dead(real, simid))
        except TypeError:
            # not weak-referenceable: fall back to a private fresh id, never reused
            return builtins.id(obj)
        self._by_real[real] = (wr, simid)
        return simid


SIM_ID = SimIdAllocator()
_mem.id = SIM_ID  # module-global `id` shadows the builtin inside lock_management only

# --------------------------------------------------------------------------------------
# S2: GC pre-emption at line events inside MyGrad functions (PEP 669)
# --------------------------------------------------------------------------------------
_MON = sys.monitoring
_TOOL = 3  # a free tool id
try:
    _MON.use_tool_id(_TOOL, "mgsim")
except ValueError:
    pass

import mygrad._utils.duplicating_graph as _dup  # noqa: E402
import mygrad.tensor_base as _tb  # noqa: E402
import mygrad._utils as _utils  # noqa: E402


def _code_objects():
    fns = [
        Tensor._op.__func__,
        Tensor._in_place_op,
        Tensor.backward,
        Tensor.clear_graph,
        Tensor._replay_op,
        Tensor.shape.fset,
        Tensor.grad.fget,
        _mem.lock_arr_writeability,
        _mem._release_lock_on_arr_writeability,
        _mem.release_writeability_lock_on_op,
        _mem.force_lock_tensor_and_creators,
        _mem.unique_arrs_and_bases,
        _mem.array_is_tracked,
        _dup.DuplicatingGraph.__init__,
        _dup.DuplicatingGraph._duplicate_graph,
        _dup.DuplicatingGraph.restore_old_graph,
        _dup.make_placeholder_tensor,
        _dup.reroute_ops_through,
        _dup.mirror_tensor,
        Operation.backward,
        _utils.collect_all_tensors_and_clear_grads,
    ]
    out = []
    for f in fns:
        co = getattr(f, "__code__", None)
        if co is not None:
            out.append(co)
    return out


class Preemptor:
    """Runs gc.collect() at chosen LINE-event ordinals inside the monitored MyGrad functions."""

    def __init__(self):
        self.codes = _code_objects()
        self.armed = False
        self.count = 0
        self.targets = ()
        self.fired = []  # (ordinal, funcname, line, collected)
        self._in_gc = False
        _MON.register_callback(_TOOL, _MON.events.LINE, self._on_line)

    def arm(self, ordinals):
        self.targets = set(ordinals)
        self.count = 0
        self.fired = []
        if not self.targets:
            return
        self.armed = True
        for co in self.codes:
            _MON.set_local_events(_TOOL, co, _MON.events.LINE)

    def disarm(self):
        if self.armed:
            for co in self.codes:
                _MON.set_local_events(_TOOL, co, 0)
        self.armed = False
        return self.fired

    def _on_line(self, code, line):
        if self._in_gc:
            return
        self.count += 1
        if self.count in self.targets:
            self._in_gc = True
            try:
                n = gc.collect()
            finally:
                self._in_gc = False
            self.fired.append((self.count, code.co_name, line, n))
            self.targets.discard(self.count)
            if not self.targets:
                self.disarm()
                return _MON.DISABLE


PREEMPT = Preemptor()

# --------------------------------------------------------------------------------------
# S4: injected kernel failure
# --------------------------------------------------------------------------------------


class InjectedKernelFault(ValueError):
    pass


class KernelFaulter:
    """Wraps Operation subclasses' __call__ so that the n-th *user-level* kernel invocation of an
    armed event raises before the real kernel runs.  Internal replays (inside no_autodiff, UnView,
    ApplyMask) are never faulted: C13 promises nothing about them (DESIGN 2.4/S4)."""

    def __init__(self):
        self.armed = False
        self.want_track = True
        self.fired = 0
        self._wrapped = set()
        self.wrap_all()

    def wrap_all(self):
        seen = set()
        stack = [Operation]
        while stack:
            c = stack.pop()
            for s in c.__subclasses__():
                if s not in seen:
                    seen.add(s)
                    stack.append(s)
        for cls in seen:
            if cls in self._wrapped or "__call__" not in cls.__dict__:
                continue
            if cls in (_dup.UnView, _dup.ApplyMask):
                continue
            self._wrap(cls)

    def _wrap(self, cls):
        orig = cls.__dict__["__call__"]
        faulter = self

        def __call__(self_op, *a, __orig=orig, **k):
            if faulter.armed and _track.TRACK_GRAPH is faulter.want_track:
                faulter.armed = False
                faulter.fired += 1
                raise InjectedKernelFault("injected kernel failure")
            return __orig(self_op, *a, **k)

        __call__.__wrapped__ = orig
        cls.__call__ = __call__
        self._wrapped.add(cls)

    def arm(self):
        self.wrap_all()
        self.want_track = _track.TRACK_GRAPH
        self.armed = True

    def disarm(self):
        was = self.armed
        self.armed = False
        return not was  # True if it fired


FAULTER = KernelFaulter()


_MANAGERS = (mg.no_autodiff, mg.mem_guard_on, mg.mem_guard_off)
_PRISTINE = [copy.deepcopy(dict(vars(m))) for m in _MANAGERS]  # taken at import, before any scope was entered


def _reset_managers():
    """put the three scope managers back into their import-time state, without assuming how they
    keep their bookkeeping (instance attributes are restored, mutable class attributes emptied)"""
    for m, d in zip(_MANAGERS, _PRISTINE):
        vars(m).clear()
        vars(m).update(copy.deepcopy(d))
        for klass in type(m).__mro__:
            if klass is object:
                continue
            for k, v in vars(klass).items():
                if not k.startswith("__") and isinstance(v, (list, dict, set)):
                    v.clear()


def reset_process_state():
    """World reset between runs in one worker (DESIGN 2.7)."""
    PREEMPT.disarm()
    FAULTER.disarm()
    # unwind switches
    _track.TRACK_GRAPH = True
    _mem.MEM_GUARD = True
    _reset_managers()
    gc.collect()
    _mem._array_counter.clear()
    _mem._array_tracker.clear()
    _mem._views_waiting_for_unlock.clear()
    SIM_ID.reset("off", None)
