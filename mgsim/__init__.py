"""mgsim - deterministic simulation of MyGrad histories (see /verif/DESIGN.md)."""
