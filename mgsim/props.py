"""Per-property workloads: generator profile (swarm), observers, non-triviality rule."""
import random

import numpy as np

from . import env
from .codec import enc_arr, enc_index
from .gen import Gen
from . import oracles as O


def h64(*parts):
    import hashlib

    m = hashlib.sha256(repr(parts).encode()).digest()
    return int.from_bytes(m[:8], "big")


class Prop:
    id = ""
    title = ""
    rule = ""

    def generate(self, rng):
        raise NotImplementedError

    def observers(self, hist):
        raise NotImplementedError

    def world_cfg(self, hist):
        return dict(hist.get("cfg", {}))

    def nontrivial(self, world):
        return True

    def after_run(self, hist, world):
        """hook for checks that need a second (twin) execution; may add violations to `world`"""
        return None


def add_faults(g, events, rng, cfg):
    """fault plan drawn after the event list (DESIGN 2.3): GC pre-emptions and kernel faults"""
    if cfg.get("gc_preempt_p", 0) > 0:
        for ev in _walk(events):
            if ev["k"] in ("op", "inplace", "backward", "clear", "setshape") and rng.random() < cfg["gc_preempt_p"]:
                ev["gcp"] = sorted({rng.randint(1, 60) for _ in range(rng.randint(1, 2))})
    if cfg.get("kernel_fault_p", 0) > 0:
        for ev in _walk(events):
            if ev["k"] in ("op", "inplace") and not ev.get("fail") and rng.random() < cfg["kernel_fault_p"]:
                ev["kf"] = 1


def _walk(events):
    for ev in events:
        yield ev
        if ev["k"] == "scope":
            yield from _walk(ev.get("body", []))


# ======================================================================================
# C08
# ======================================================================================
class C08(Prop):
    id = "C08"
    title = "memory guard"
    rule = (
        "histories are drawn by the seeded generator (swarm configuration per run); a history is non-trivial when at least one "
        "caller-held array went through a lock transition (was observed locked by a live guarded op and later observed restored) "
        "and distinct when its sequence of (event kind, outcome class) differs"
    )

    def generate(self, rng):
        cfg = {
            "lane": rng.choice(["plain", "plain", "faults", "faults", "seams"]),
            "id_policy": "never",
            "max_elems": rng.choice([6, 12, 24]),
            "max_ndim": rng.choice([1, 2, 3]),
            "dtypes": rng.choice([["f8"], ["f8", "f4"], ["f8", "f4", "f2"]]),
            "n_events": rng.randint(8, 45),
            "tape": False,
            "initial_guard": True,
        }
        lane = cfg["lane"]
        if lane == "seams":
            cfg["id_policy"] = rng.choice(["lifo", "random", "never"])
            cfg["gc_preempt_p"] = rng.choice([0.0, 0.1, 0.3])
            cfg["kernel_fault_p"] = rng.choice([0.0, 0.05])
            cfg["cycle_p"] = rng.choice([0.2, 0.5])
        elif lane == "faults":
            cfg["kernel_fault_p"] = rng.choice([0.03, 0.08])
            cfg["fail_p"] = rng.choice([0.05, 0.12])
            cfg["cycle_p"] = rng.choice([0.0, 0.2])
        else:
            cfg["cycle_p"] = rng.choice([0.0, 0.1])
        if rng.random() < 0.1:
            cfg["initial_guard"] = False
        w = {
            "arr": rng.choice([1, 3, 5]),
            "aview": rng.choice([0, 2, 4]),
            "wrap": rng.choice([1, 3, 5]),
            "leaf": rng.choice([1, 2, 4]),
            "grab": rng.choice([0, 2, 4]),
            "unary": 3,
            "binary": rng.choice([3, 6]),
            "reduce": 2,
            "view": rng.choice([2, 5, 8]),
            "adv": 1,
            "out_arr": rng.choice([0, 2, 4]),
            "setitem": rng.choice([0, 2, 5]),
            "iop": rng.choice([0, 2, 4]),
            "ufunc": rng.choice([0, 2, 5]),
            "backward": rng.choice([1, 3]),
            "clear": rng.choice([0, 1, 2]),
            "null_grad": 0.5,
            "drop_t": rng.choice([2, 5, 9]),
            "drop_a": rng.choice([0, 1, 3]),
            "gc": rng.choice([0, 1, 2]),
            "scope": rng.choice([0, 0, 1, 3]),
            "toggle": rng.choice([0, 0, 0.5]),
            "write": rng.choice([0, 1, 3]),
            "fail": 0,
            "misc": 1,
            "motif": 0,
        }
        if cfg.get("fail_p"):
            w["fail"] = 3
        if lane == "seams":
            w["motif"] = rng.choice([0, 1, 2])
            w["aview"] = max(w["aview"], 2)
        elif rng.random() < 0.4:
            w["motif"] = 0.7
        cfg["weights"] = w
        g = Gen(rng, cfg)
        if not cfg["initial_guard"]:
            g.emit({"k": "toggle", "on": False})
        self._body(g, cfg["n_events"], w, depth=0)
        add_faults(g, g.ev, rng, cfg)
        return {"prop": self.id, "cfg": cfg, "events": g.ev}

    def _body(self, g, n, w, depth):
        if depth == 0:
            n = n * DEPTH
        table = [(k, v) for k, v in w.items() if v > 0]
        tries = 0
        made = 0
        while made < n and tries < n * 4:
            tries += 1
            before = len(g._sink)
            k = g.wchoice(table)
            getattr(self, "_g_" + k)(g, w, depth)
            if len(g._sink) > before:
                made += 1

    # generators of single events -----------------------------------------------------
    def _g_arr(self, g, w, d):
        g.arr(ro=g.coin(0.12))

    def _g_aview(self, g, w, d):
        hs = sorted(g.a)
        if not hs:
            return
        src = g.choice(hs)
        v = g.a[src]
        ix = g.rand_basic_index(v.shape, allow_newaxis=False)
        try:
            sv = v[ix]
        except Exception:
            return
        if not isinstance(sv, np.ndarray) or sv.base is None:
            return
        h = g.new_h()
        ev = {"k": "aview", "out": h, "src": src, "index": enc_index(ix)}
        if g.coin(0.08):
            ev["ro"] = True  # the caller protects this view itself (natively read-only view of writeable memory)
        g.emit(ev)
        g.a[h] = sv
        g.a_ro[h] = g.a_ro.get(src, False) or bool(ev.get("ro"))

    def _g_wrap(self, g, w, d):
        hs = sorted(g.a)
        if not hs:
            return
        src = g.choice(hs)
        how = g.choice(["tensor_copy", "tensor_nocopy", "tensor_nocopy", "astensor", "Tensor", "Tensor_nocopy"])
        v = g.a[src]
        h = g.new_h()
        c = None
        if g.coin(0.15):
            c = True
        g.emit({"k": "wrap", "out": h, "src": src, "how": how, "constant": c})
        from .gen import G

        g.fam_id += 1
        shares = how in ("tensor_nocopy", "astensor", "Tensor_nocopy")
        val = v if shares else v.copy()
        g.t[h] = G(val, c if c is not None else (v.dtype.kind != "f"), g.epoch, g.fam_id)
        g.t[h].born = -1  # foreign: never judged as an epoch-pure family

    def _g_leaf(self, g, w, d):
        g.leaf()

    def _g_grab(self, g, w, d):
        hs = g.tensors()
        if not hs:
            return
        src = g.choice(hs)
        what = g.choice(["data", "data", "asarray", "grad"])
        h = g.new_h()
        g.emit({"k": "grab", "out": h, "src": src, "what": what})
        if what != "grad":
            g.a[h] = g.t[src].val
            g.a_ro[h] = False

    def _g_unary(self, g, w, d):
        g.op_unary()

    def _g_binary(self, g, w, d):
        g.op_binary()

    def _g_reduce(self, g, w, d):
        g.op_reduce()

    def _g_view(self, g, w, d):
        g.op_view()

    def _g_adv(self, g, w, d):
        g.op_adv_getitem()

    def _g_misc(self, g, w, d):
        k = g.choice(["matmul", "einsum", "where", "join", "seq", "cumsum", "power"])
        getattr(g, "op_" + k)()

    def _g_out_arr(self, g, w, d):
        """ufunc with out=<caller ndarray>"""
        hs = [h for h in sorted(g.a) if g.a[h].dtype.kind == "f" and g.a[h].flags.writeable]
        ts = g.float_tensors()
        if not hs or not ts:
            return
        out = g.choice(hs)
        shape = g.a[out].shape
        cands = [t for t in ts if g._bcastable(g.t[t].val.shape, shape)]
        if not cands:
            return
        a0 = {"t": g.choice(cands)}
        op = g.choice(["add", "mul", "sub"])
        a1 = g.operand_for(shape)
        if a1.get("a") == out:
            return
        before = len(g._sink)
        h = g._emit_op(op, [a0, a1], spell="f", out_arr=out, **({"out_tuple": True} if g.coin(0.2) else {}))
        if h is None:
            return
        res = g.t[h].val
        if res.shape != tuple(shape) or g.a_ro.get(out):
            # not a valid out= statement: retract
            del g._sink[before:]
            g.t.pop(h)
            return
        g.a[out][...] = res
        g.t[h].val = g.a[out]
        g.t[h].born = -1

    def _g_setitem(self, g, w, d):
        g.inplace_setitem()

    def _g_iop(self, g, w, d):
        g.inplace_iop()

    def _g_ufunc(self, g, w, d):
        g.inplace_ufunc()

    def _g_backward(self, g, w, d):
        hs = [h for h in g.float_tensors() if not g.t[h].const]
        if not hs:
            return
        # prefer deep tensors
        hs.sort(key=lambda h: -g.t[h].depth)
        tgt = hs[0] if g.coin(0.5) else g.choice(hs)
        g.backward(tgt)

    def _g_clear(self, g, w, d):
        hs = g.tensors()
        if hs:
            g.clear(g.choice(hs))

    def _g_null_grad(self, g, w, d):
        hs = g.tensors()
        if hs:
            g.emit({"k": "null_grad", "tgt": g.choice(hs)})

    def _g_drop_t(self, g, w, d):
        hs = g.tensors()
        if hs:
            g.drop_t(g.choice(hs), cycle=g.coin(g.cfg.get("cycle_p", 0)))

    def _g_drop_a(self, g, w, d):
        hs = sorted(g.a)
        if hs:
            g.drop_a(g.choice(hs), cycle=g.coin(g.cfg.get("cycle_p", 0)))

    def _g_gc(self, g, w, d):
        g.gc()

    def _g_write(self, g, w, d):
        hs = sorted(g.a)
        if hs:
            g.emit({"k": "write", "a": g.choice(hs)})

    def _g_toggle(self, g, w, d):
        if d == 0:
            g.emit({"k": "toggle", "on": g.coin(0.5)})

    def _g_scope(self, g, w, d):
        if d >= 2:
            return
        mgr = g.choice(["mem_guard_off", "mem_guard_on", "no_autodiff"])
        ev = {"k": "scope", "mgr": mgr, "style": g.choice(["with", "deco"]), "body": [], "raise": g.coin(0.15)}
        outer = g._sink
        g._sink = ev["body"]
        was = g.tracking
        if mgr == "no_autodiff":
            g.tracking = False
        w2 = dict(w)
        w2["toggle"] = 0
        if mgr == "no_autodiff":
            w2["backward"] = 0
            w2["clear"] = 0
        self._body(g, g.r.randint(1, 5), w2, d + 1)
        g._sink = outer
        g.tracking = was
        g.emit(ev)

    def _g_motif(self, g, w, d):
        c = g.r.random()
        if c < 0.35:
            return self._g_motif_idreuse(g, w, d)
        if c < 0.55:
            return self._g_motif_stale_count(g, w, d)
        if c < 0.75:
            return self._g_motif_gc_race(g, w, d)
        return self._g_motif_buffer(g, w, d)

    def _g_motif_gc_race(self, g, w, d):
        """fault-placement motif (biasing, not an oracle): the only other lock on a caller array is
        held by a graph parked in a reference cycle; the next op on that array is pre-empted by a
        cyclic-GC pass at a randomly chosen line inside MyGrad - sometimes exactly between the
        'is it tracked?' test and the increment of its lock count."""
        if d > 0 or not g.tracking:
            return
        r = g.r
        a = g.arr(shape=g.rand_shape(min_ndim=0, max_ndim=2), dtype="f8")
        h1 = g._emit_op(r.choice(["mul", "add", "sub"]), [{"a": a}, {"c": 2.0}], spell="f")
        if h1 is None:
            return
        g.drop_t(h1, cycle=True)
        before = len(g._sink)
        h2 = g._emit_op(r.choice(["minimum", "mul", "add"]), [{"a": a}, {"c": 1.5}], spell="f")
        if h2 is None:
            return
        g._sink[before]["gcp"] = [r.randint(8, 40)]
        if r.random() < 0.7:
            g.drop_t(h2)

    def _g_motif_stale_count(self, g, w, d):
        """fault-placement motif (biasing, not an oracle): an array dies while operations still
        count it (a tensor's memory replaced by an in-place update between two clears), and the very
        next array the lock tables meet is a natively read-only caller array - under LIFO id reuse it
        inherits the dead array's id together with whatever was left behind under it."""
        if d > 0 or not g.tracking:
            return
        r = g.r
        n = r.choice([0, 0, 1, 2, 3])
        shape = () if n == 0 else (n,)
        a = g.arr(shape=shape, dtype=r.choice(["f8", "f4"]), ro=True)
        hs = [g.new_h() for _ in range(6)]
        x, v3, v4, t6, x9, t10 = hs
        g.emit({"k": "wrap", "out": x, "src": a, "how": "tensor_copy", "constant": r.choice([None, True])})
        if n == 0:
            g.emit({"k": "op", "op": "atleast_1d", "out": v3, "args": [{"t": x}], "p": {}, "spell": "f"})
        else:
            g.emit({"k": "op", "op": "reshape", "out": v3, "args": [{"t": x}], "p": {"shape": [n], "splat": False}, "spell": "f"})
        g.emit({"k": "op", "op": "getitem", "out": v4, "args": [{"t": v3}], "p": {"index": enc_index(slice(0, None, None))}, "spell": "f"})
        g.emit({"k": "op", "op": r.choice(["cumsum", "neg", "square"]), "out": t6, "args": [{"t": v3}], "p": ({"axis": -1}), "spell": "f"})
        g.emit({"k": "clear", "tgt": v3})
        g.emit({"k": "inplace", "form": "setitem", "tgt": v3, "index": enc_index(slice(0, None, 2)), "args": [{"t": v4}]})
        g.emit({"k": "clear", "tgt": v3})
        g.emit({"k": "wrap", "out": x9, "src": a, "how": r.choice(["Tensor_nocopy", "tensor_nocopy", "astensor"]), "constant": None})
        g.emit({"k": "op", "op": "mul", "out": t10, "args": [{"t": x9}, {"c": 2.0}], "p": {}, "spell": "f"})
        order = [t10, x9, t6, v4, v3, x]
        if r.random() < 0.5:
            r.shuffle(order)
        for h in order:
            g.emit({"k": "drop", "kind": "T", "h": h, "cycle": False})

    def _g_motif_buffer(self, g, w, d):
        """the pre-allocated-buffer pattern: several out= targets that are views of one caller
        buffer (taken before anything is locked), written by independent ops, released in a
        random order"""
        if d > 0 or not g.tracking:
            return
        r = g.r
        n = r.randint(2, 3)
        k = r.randint(1, 3)
        buf = g.arr(shape=(n * k,), dtype="f8")
        views = []
        for i in range(n):
            v = g.new_h()
            ix = slice(i * k, (i + 1) * k)
            g.emit({"k": "aview", "out": v, "src": buf, "index": enc_index(ix)})
            g.a[v] = g.a[buf][ix]
            g.a_ro[v] = False
            views.append(v)
        results = []
        for v in views:
            x = g.leaf(shape=(k,), dtype="f8")
            before = len(g._sink)
            h = g._emit_op(r.choice(["add", "mul"]), [{"t": x}, {"c": 2.0}], spell="f", out_arr=v)
            if h is None:
                continue
            g.a[v][...] = g.t[h].val
            g.t[h].val = g.a[v]
            g.t[h].born = -1
            results.append(h)
            if r.random() < 0.3:
                self._g_unary(g, w, d)
        r.shuffle(results)
        for h in results[: r.randint(1, len(results))] if results else []:
            how = r.random()
            if how < 0.5:
                g.drop_t(h, cycle=r.random() < 0.15)
            elif how < 0.75:
                g.clear(h)
            else:
                g.backward(h)

    def _g_motif_idreuse(self, g, w, d):
        """fault-placement motif for the lock tables (biasing, not an oracle): two caller arrays
        each kept locked by a long-lived result; a view of the first is used, released (so it has
        to wait for its base) and dropped while waiting; a view of the second is created next -
        under LIFO id reuse it inherits the dead view's id - used and released; then the two
        holders are dropped in a random order."""
        if d > 0:
            return
        r = g.r

        def locked_array():
            a = g.arr(shape=g.rand_shape(min_ndim=1, max_ndim=2), dtype="f8")
            h = g._emit_op(r.choice(["mul", "add"]), [{"a": a}, {"c": 2.0}], spell="f")
            return a, h

        def view_of(a):
            v = g.new_h()
            ix = g.rand_basic_index(g.a[a].shape, allow_newaxis=False, allow_int=False)
            try:
                sv = g.a[a][ix]
            except Exception:
                return None
            if not isinstance(sv, np.ndarray) or sv.base is None or sv.size == 0:
                return None
            g.emit({"k": "aview", "out": v, "src": a, "index": enc_index(ix)})
            g.a[v] = sv
            g.a_ro[v] = False
            return v

        a, ha = locked_array()
        b, hb = locked_array()
        if ha is None or hb is None:
            return
        v1 = view_of(a)
        if v1 is None:
            return
        y1 = g._emit_op("add", [{"a": v1}, {"c": 1.0}], spell="f")
        if y1 is None:
            return
        g.drop_t(y1)
        if r.random() < 0.85:
            g.drop_a(v1)
        if r.random() < 0.2:
            self._g_unary(g, w, d)
        v2 = view_of(b if r.random() < 0.8 else a)
        if v2 is None:
            return
        y2 = g._emit_op("add", [{"a": v2}, {"c": 1.0}], spell="f")
        if y2 is None:
            return
        if r.random() < 0.85:
            g.drop_t(y2)
        order = [ha, hb]
        r.shuffle(order)
        for h in order:
            if r.random() < 0.9 and h in g.t:
                g.drop_t(h, cycle=r.random() < 0.15)

    def _g_fail(self, g, w, d):
        """a naturally failing statement (F1)"""
        ts = g.float_tensors()
        if not ts:
            return
        src = g.choice(ts)
        v = g.t[src].val
        kind = g.choice(["shape", "index", "axis", "setitem_shape", "setitem_index", "setitem_index", "out_shape", "reshape", "setshape", "setshape", "bad_seed", "int_nonconst"])
        if kind == "shape":
            bad = tuple(list(v.shape) + [v.shape[-1] + 1 if v.ndim else 2]) if v.ndim else (2, 3)
            other = {"n": enc_arr(np.ones((5, 7)))}
            g.emit({"k": "op", "op": g.choice(["add", "mul"]), "out": g.new_h(), "args": [{"t": src}, {"n": enc_arr(np.ones((v.shape[-1] + 1 if v.ndim else 2,) if v.ndim and v.shape[-1] != 1 else (2, 3, 5, 7)))}], "p": {}, "spell": "f", "fail": 1})
        elif kind == "index":
            ix = (0,) * (v.ndim + 1) if g.coin(0.5) or v.ndim == 0 else (v.shape[0] + 3,)
            g.emit({"k": "op", "op": "getitem", "out": g.new_h(), "args": [{"t": src}], "p": {"index": enc_index(ix)}, "spell": "o", "fail": 1})
        elif kind == "axis":
            g.emit({"k": "op", "op": "sum", "out": g.new_h(), "args": [{"t": src}], "p": {"axis": v.ndim + 1}, "spell": g.choice(["f", "m"]), "fail": 1})
        elif kind == "setshape":
            g.emit({"k": "setshape", "tgt": src, "shape": self._bad_shape(g, v), "fail": 1})
        elif kind == "int_nonconst":
            # the kernel succeeds and the *result* is rejected (an integer-valued tensor cannot be
            # non-constant): the operands were locked and registered as consumers by then
            hi = g.leaf(shape=tuple(v.shape) if v.ndim else (2,), dtype="i8", constant=None)
            if hi is not None:
                g.emit({"k": "op", "op": g.choice(["add", "mul"]), "out": g.new_h(), "args": [{"t": hi}, g.choice([{"t": hi}, {"c": 2}])], "p": {}, "spell": "f", "constant": False, "fail": 1})
        elif kind == "bad_seed":
            if not g.t[src].const and g.tracking:
                g.emit({"k": "backward", "tgt": src, "seed": rand_seed_ref(g, g.r, v.shape, "bad"), "fail": 1})
        elif kind == "setitem_index":
            # invalid index in an in-place update (IndexError: out of range / too many indices)
            ix = (0,) * (v.ndim + 1) if (g.coin(0.4) or v.ndim == 0) else ((v.shape[0] + 2,) if g.coin(0.5) else (np.array([0, v.shape[0] + 1]),))
            g.emit({"k": "inplace", "form": "setitem", "tgt": src, "index": enc_index(ix), "args": [{"c": 1.0}], "fail": 1})
        elif kind == "setitem_shape":
            g.emit({"k": "inplace", "form": "setitem", "tgt": src, "index": enc_index(Ellipsis), "args": [{"n": enc_arr(np.ones((7, 5, 3)))}], "fail": 1})
        elif kind == "out_shape":
            g.emit({"k": "inplace", "form": "ufunc", "op": "add", "tgt": src, "args": [{"n": enc_arr(np.ones((7, 5, 3)))}, {"c": 1.0}], "fail": 1})
        else:
            g.emit({"k": "op", "op": "reshape", "out": g.new_h(), "args": [{"t": src}], "p": {"shape": self._bad_shape(g, v)}, "spell": g.choice(["f", "m"]), "fail": 1})

    @staticmethod
    def _bad_shape(g, v):
        """a shape NumPy rejects for `v`: wrong size, a -1 wildcard whose other dimensions do not
        divide the size, two wildcards, or a zero-size shape for a non-empty array"""
        n = int(v.size)
        c = g.choice(["size", "wild", "wild", "wild", "wild2", "zero", "nd"])
        if c == "wild" and n > 0:
            k = next(k for k in range(2, n + 3) if n % k)
            return g.choice([[-1, k], [k, -1]])
        if c == "wild2":
            return [-1, -1]
        if c == "zero" and n > 0:
            return [0]
        if c == "nd" and n > 0:
            return [n, 2]
        return [n + 1]

    # ---------------------------------------------------------------------------------
    def observers(self, hist):
        return [O.LockOracle()]

    def world_cfg(self, hist):
        c = dict(hist["cfg"])
        return c

    def nontrivial(self, world):
        return world.probes.get("c08.locked_ok", 0) > 0 and world.probes.get("c08.restored_ok", 0) > 0


PROPS = {}


def register(p):
    PROPS[p.id] = p
    return p


register(C08())


_KNOWN = None


def known_matcher(prop, tag):
    global _KNOWN
    if _KNOWN is None:
        from .runner import load_known

        _KNOWN = load_known()
    from .runner import match_known

    return match_known(_KNOWN, prop, tag) is not None


def run_history(hist, stop_on_violation=True, use_known=True):
    """execute one history in the current process (after a world reset); returns the World"""
    from .world import World

    prop = PROPS[hist["prop"]]
    env.reset_process_state()
    import gc

    cfg = prop.world_cfg(hist)
    cfg["stop_on_violation"] = stop_on_violation
    cfg.setdefault("fd_sample", hist.get("seed", 0) % 8 == 0)
    if use_known:
        cfg["known_matcher"] = known_matcher
    # ids seen by lock_management always come from the simulated allocator (policy "never" =
    # fresh ids only), so that no run depends on real addresses
    env.SIM_ID.reset(cfg.get("id_policy", "never"), random.Random(h64("simid", hist.get("seed", 0))))
    gc.disable()
    np.random.seed(hist.get("seed", 0) % (2**32))
    w = World(cfg, prop.observers(hist))
    try:
        w.run(hist["events"])
        if not w.violations and not hist.get("_is_twin"):
            prop.after_run(hist, w)
    finally:
        if env.SIM_ID.reuses:
            w.stats["fault.id_reuse"] = env.SIM_ID.reuses
        w.abandon_held()
        if w._tmpdir is not None:
            import shutil

            shutil.rmtree(w._tmpdir, ignore_errors=True)
            w._tmpdir = None
        env.reset_process_state()
    return w


DEPTH = 1  # size knob of the generators: 1 = the quick profile; the thorough tier runs a third of its histories at 2


def gen_history(pid, run_seed, depth=1):
    global DEPTH
    rng = random.Random(run_seed)
    DEPTH = depth
    try:
        h = PROPS[pid].generate(rng)
    finally:
        DEPTH = 1
    h["seed"] = run_seed
    if depth != 1:
        h["depth"] = depth
    return h


# ======================================================================================
# shared: epoch-style mutation histories (C04 / C05 / C13 / C10 ...)
# ======================================================================================
class EpochGen:
    """one or more epochs; in each: owners, views (and views of views), non-view consumers,
    in-place updates on any member, then a terminal built from kept loss terms, then backward."""

    def __init__(self, g, opts):
        self.g = g
        self.o = opts

    def run(self, n_epochs):
        g = self.g
        for e in range(n_epochs):
            self.epoch()

    def epoch(self):
        g, o = self.g, self.o
        r = g.r
        terms = []
        owners = []
        for _ in range(r.randint(1, o.get("max_owners", 3))):
            if g.coin(0.7) or not g.float_tensors():
                owners.append(g.leaf(shape=g.rand_shape(min_ndim=o.get("min_ndim", 0))))
            else:
                h = g.op_binary(allow_arrays=False) or g.op_unary()
                if h is not None:
                    owners.append(h)
        fresh = list(owners)
        n_ev = r.randint(o.get("min_events", 4), o.get("max_events", 18) * DEPTH)
        w = o["weights"]
        table = [(k, v) for k, v in w.items() if v > 0]
        for _ in range(n_ev):
            k = g.wchoice(table)
            cur = [h for h in g.tensors() if g.t[h].born == g.epoch] if o.get("only_fresh", True) else g.tensors()
            if not cur:
                break
            src = g.choice(cur)
            if k == "view":
                h = g.op_view(src)
            elif k == "adv":
                h = g.op_adv_getitem(src)
            elif k == "read":
                h = self._read(src)
                if h is not None:
                    terms.append(h)
            elif k == "setitem":
                fl = [x for x in cur if g.t[x].val.dtype.kind == "f"]
                if fl:
                    g.inplace_setitem(g.choice(fl), adv_p=o.get("adv_p", 0.35))
            elif k == "iop":
                fl = [x for x in cur if g.t[x].val.dtype.kind == "f"]
                if fl:
                    g.inplace_iop(g.choice(fl))
            elif k == "ufunc":
                fl = [x for x in cur if g.t[x].val.dtype.kind == "f"]
                if fl:
                    g.inplace_ufunc(g.choice(fl))
            elif k == "setshape":
                views = [x for x in cur if g.t[x].val.base is not None]
                g.setshape(g.choice(views) if views and g.coin(0.8) else src)
            elif k == "drop":
                if len(cur) > 2:
                    g.drop_t(src, cycle=False)
                    if src in terms:
                        terms.remove(src)
            elif k == "fail":
                PROPS["C08"]._g_fail(g, {}, 0)
            elif k == "tindex":
                h = g.op_tensor_index(src)
                if h is not None:
                    terms.append(h)
            elif k == "idxmut":
                g.idx_mutate()
            elif k == "leaf":
                g.leaf()
            elif k == "badleaf":
                # integer tensor with constant=False: must be refused while tracking
                v = g.rand_vals(g.rand_shape(), g.choice(["i8", "i4", "b1"]))
                g.emit({"k": "leaf", "out": g.new_h(), "arr": enc_arr(v), "constant": False, "fail": 1})
        # terminal
        terms = [h for h in terms if h in g.t]
        if o.get("include_members", True):
            # every tensor created in this epoch takes part in the terminal, so that the whole
            # epoch graph is upstream of L and nothing is left half-cleared (that is C09's lane)
            for h in [h for h in g.float_tensors() if g.t[h].born == g.epoch]:
                if h not in terms:
                    terms.append(h)
        L = self._terminal(terms)
        if L is None:
            return
        how = g.wchoice(o.get("end", [("backward", 8), ("clear", 1)]))
        if how == "backward":
            g.backward(L)
        else:
            g.clear(L)
        if g.coin(o.get("drop_after_p", 0.5)):
            for h in list(g.tensors()):
                if g.coin(0.6):
                    g.drop_t(h)

    def _read(self, src):
        g = self.g
        if self.o.get("nnet_p") and g.coin(self.o["nnet_p"]):
            return g.nnet()
        k = g.choice(["unary", "binary", "reduce", "misc", "binary"])
        if g.t[src].val.dtype.kind != "f":
            return None
        if k == "unary":
            return g.op_unary(src)
        if k == "binary":
            return g.op_binary(src, allow_arrays=False)
        if k == "reduce":
            return g.op_reduce(src)
        m = g.choice(["matmul", "where", "join", "seq", "cumsum", "power", "einsum", "clip"] if not g.exact else ["matmul", "where", "join", "seq", "cumsum", "power"])
        return getattr(g, "op_" + m)(src)

    def _terminal(self, terms):
        """L = sum_i c_i * term_i.sum()  (one shrink-friendly event)"""
        g = self.g
        ts = []
        tot = 0.0
        for h in terms:
            if h not in g.t or g.t[h].val.dtype.kind != "f":
                continue
            c = float(g.r.randint(1, 3)) if g.exact else round(g.r.uniform(0.5, 2.0), 2)
            ts.append([h, c])
            tot = tot + float(np.sum(g.t[h].val.astype(np.float64))) * c
        if not ts or not np.isfinite(tot):
            return None
        from .gen import G

        L = g.new_h()
        g.emit({"k": "terminal", "out": L, "terms": ts})
        g.fam_id += 1
        g.t[L] = G(np.asarray(tot), all(g.t[h].const for h, _ in ts), g.epoch, g.fam_id, depth=99)
        return L


def replay_identity_motif(g, rng, with_failure):
    """workload-placement motif (biasing, not an oracle), appended as one more epoch: a tensor whose
    ndarray is a view of a hidden array (mg.roll over the flattened operand) gets a view whose op
    hands back the operand array ITSELF (squeeze with nothing to squeeze: a registered view, as the
    array has a .base); in-place updates on the owner then make MyGrad re-create that view on a new
    base array that owns its memory - the path repaired by fix 18 (DESIGN 8.4).  A failing in-place
    update in between exercises the rollback over such a family.  Drawn from its own PRNG after
    everything else, so that the histories of all other runs are unchanged."""
    old_r = g.r
    g.r = rng
    try:
        n = rng.choice([2, 3, 4])
        shape = (n,) if rng.random() < 0.6 else (2, n)
        x = g.leaf(shape=shape, dtype="f8", constant=None)
        if x is None:
            return
        y = g._emit_op("roll", [{"t": x}], {"shift": rng.randint(-3, 3), "axis": None}, spell="f", view_src=x)
        if y is None:
            return
        z = g._emit_op("squeeze", [{"t": y}], {"axis": None}, view_src=y)
        if z is None:
            return
        if rng.random() < 0.5:
            g.op_view(rng.choice([y, z]))
        steps = ["iop", "setitem", "ufunc", "fail" if with_failure else "iop", "iop"]
        rng.shuffle(steps)
        for k in steps[: rng.randint(2, 5)]:
            tgt = y if rng.random() < 0.8 else z
            if k == "iop":
                g.inplace_iop(tgt)
            elif k == "setitem":
                g.inplace_setitem(tgt, adv_p=0.2)
            elif k == "ufunc":
                g.inplace_ufunc(tgt)
            else:
                if rng.random() < 0.5:
                    g.emit({"k": "inplace", "form": "setitem", "tgt": tgt, "index": enc_index(Ellipsis), "args": [{"n": enc_arr(np.ones((7, 5, 3)))}], "fail": 1})
                else:
                    g.emit({"k": "inplace", "form": "ufunc", "op": "add", "tgt": tgt, "args": [{"n": enc_arr(np.ones((7, 5, 3)))}, {"c": 1.0}], "fail": 1})
    finally:
        g.r = old_r



class C04(Prop):
    id = "C04"
    title = "views and in-place updates mirror NumPy"
    rule = (
        "epoch histories (owners, views, views of views, non-view consumers, in-place updates on any member, .shape assignment) drawn by the "
        "seeded generator; non-trivial when at least one in-place update or .shape assignment succeeded on a family with >=2 members; "
        "distinct by the sequence of (event kind, outcome class)"
    )

    def generate(self, rng):
        cfg = {
            "lane": rng.choice(["plain", "plain", "faults", "seams"]),
            "id_policy": "never",
            "max_elems": rng.choice([6, 12, 24]),
            "max_ndim": rng.choice([1, 2, 3]),
            "dtypes": rng.choice([["f8"], ["f8", "f4"], ["f8", "i8"], ["f8", "f4", "b1", "i4"]]),
            "tape": False,
            "exact": rng.random() < 0.5,
            "const_flags": rng.random() < 0.3,
            "f_order_p": rng.choice([0, 0, 0.4]),
        }
        w = {"view": rng.choice([3, 6]), "adv": 1, "read": rng.choice([1, 3]), "setitem": rng.choice([2, 5]), "iop": rng.choice([1, 3]),
             "ufunc": rng.choice([1, 3]), "setshape": rng.choice([0, 1, 2, 3]), "drop": rng.choice([0, 1]), "leaf": 0.5, "fail": 0}
        if cfg["lane"] == "faults":
            w["fail"] = 2
            cfg["kernel_fault_p"] = 0.05
        if cfg["lane"] == "seams":
            cfg["id_policy"] = rng.choice(["lifo", "random"])
            cfg["gc_preempt_p"] = 0.15
        g = Gen(rng, cfg)
        eg = EpochGen(g, {"weights": w, "max_events": rng.choice([8, 14, 22]), "adv_p": rng.choice([0.2, 0.5])})
        eg.run(rng.randint(1, 3 + DEPTH - 1))
        add_faults(g, g.ev, rng, cfg)
        if rng.random() < 0.12:
            replay_identity_motif(g, random.Random(rng.getrandbits(64)), with_failure=cfg["lane"] == "faults")
        return {"prop": self.id, "cfg": cfg, "events": g.ev}

    def observers(self, hist):
        return [O.ValueOracle("C04")]

    def nontrivial(self, world):
        return world.probes.get("c04.inplace_on_family", 0) > 0


register(C04())


class C05(Prop):
    id = "C05"
    title = "gradients through in-place updates and views"
    rule = (
        "epoch histories with reads before/after every mutation and a terminal over all kept terms and all members; non-trivial when a "
        "backward pass was judged against the functional tape after at least one in-place update on a view family; distinct by the "
        "sequence of (event kind, outcome class)"
    )
    expected_probes = ["grad.judged_backward", "grad.value_ok", "c04.inplace_on_family"]

    def generate(self, rng):
        cfg = {
            "lane": rng.choice(["plain", "plain", "plain", "seams"]),
            "id_policy": "never",
            "max_elems": rng.choice([6, 12]),
            "max_ndim": rng.choice([1, 2, 3]),
            "dtypes": rng.choice([["f8"], ["f8"], ["f8", "f4"]]),
            "tape": True,
            "exact": rng.random() < 0.5,
            "const_flags": rng.random() < 0.25,
            "f_order_p": rng.choice([0, 0, 0.4]),
        }
        if cfg["exact"]:
            cfg["dtypes"] = ["f8"]
        w = {"view": rng.choice([3, 6]), "adv": rng.choice([0, 1]), "read": rng.choice([3, 5]), "setitem": rng.choice([2, 5]), "iop": rng.choice([1, 3]),
             "ufunc": rng.choice([1, 3]), "setshape": rng.choice([0, 0, 1]), "drop": rng.choice([0, 1]), "leaf": 0.5, "fail": 0}
        if rng.random() < 0.25:
            # integer tensors used as indices, and later updated in place
            w["tindex"] = rng.choice([1, 2])
            w["idxmut"] = rng.choice([0, 1, 2])
        if cfg["lane"] == "seams":
            cfg["id_policy"] = rng.choice(["lifo", "random"])
            cfg["gc_preempt_p"] = 0.15
        g = Gen(rng, cfg)
        eg = EpochGen(g, {"weights": w, "max_events": rng.choice([6, 10, 16]), "adv_p": rng.choice([0.2, 0.5]), "end": [("backward", 1)], "nnet_p": rng.choice([0, 0, 0.15])})
        eg.run(rng.randint(1, 3 + DEPTH - 1))
        add_faults(g, g.ev, rng, cfg)
        return {"prop": self.id, "cfg": cfg, "events": g.ev}

    def observers(self, hist):
        return [O.TapeValueOracle("C05"), O.GradOracle("C05")]

    def nontrivial(self, world):
        return world.probes.get("grad.judged_backward", 0) > 0 and world.probes.get("c04.inplace_on_family", 0) > 0


register(C05())


# ======================================================================================
# C01 - exact total derivative, independent of write order
# ======================================================================================
COMMUTATIVE = {"add", "mul", "maximum", "minimum"}


def _ev_deps(ev):
    d = [r["t"] for r in ev.get("args", []) if "t" in r]
    if ev["k"] == "terminal":
        d += [h for h, _ in ev["terms"]]
    if "tgt" in ev:
        d.append(ev["tgt"])
    return d


def _rename(ev, off):
    import copy

    e = copy.deepcopy(ev)
    if "out" in e:
        e["out"] += off
    if "tgt" in e:
        e["tgt"] += off
    if "h" in e:
        e["h"] += off
    for r in e.get("args", []):
        if "t" in r:
            r["t"] += off
    if e["k"] == "terminal":
        e["terms"] = [[h + off, c] for h, c in e["terms"]]
    return e


class C01(Prop):
    id = "C01"
    title = "backward() yields the exact total derivative"
    rule = (
        "one random dataflow DAG (<=25 nodes: elementwise, reductions, views, indexing, matmul/einsum/where/clip/joins, argument repetition, "
        "broadcasting, constant leaves/arrays/scalars) executed under k=2..4 schedules (random linear extension, swapped commutative operands, "
        "permuted sequence operands, bystander statements, early drops, gc); non-trivial when >=2 schedules were judged against the tape and "
        "against each other; distinct by the sequence of (event kind, outcome class)"
    )
    expected_probes = ["grad.judged_backward", "grad.value_ok", "c01.cross_schedule_ok"]
    dtype_choices = [["f8"], ["f8"], ["f8", "f4"]]

    def generate(self, rng):
        cfg = {
            "lane": rng.choice(["plain", "plain", "seams"]),
            "id_policy": "never",
            "max_elems": rng.choice([6, 12]),
            "max_ndim": rng.choice(getattr(self, "max_ndim_choices", [1, 2, 3])),
            "dtypes": rng.choice(self.dtype_choices),
            "tape": True,
            "exact": rng.random() < 0.5,
            "const_flags": rng.random() < 0.4,
            "f_order_p": rng.choice([0, 0.3, 0.6]),
            "leaf_min_ndim": getattr(self, "leaf_min_ndim", 0),
        }
        if cfg["exact"]:
            cfg["dtypes"] = ["f8"]
        if cfg["lane"] == "seams":
            cfg["id_policy"] = rng.choice(["lifo", "random"])
            cfg["gc_preempt_p"] = 0.1
        g = Gen(rng, cfg)
        # ---- the DAG, written once
        for _ in range(rng.randint(1, 4)):
            g.leaf()
        if rng.random() < 0.5:
            g.arr()
        if rng.random() < 0.3:
            # dtype mixes: integer (hence constant) tensors and integer arrays as operands
            g.leaf(dtype=rng.choice(["i8", "i4"]), constant=None)
            if rng.random() < 0.5:
                g.arr(dtype="i8")
        self.motifs(rng, g, cfg)
        n_nodes = rng.randint(3, 22 * DEPTH)
        kinds = self.kinds(cfg, rng)
        made = 0
        tries = 0
        while made < n_nodes and tries < n_nodes * 4:
            tries += 1
            k = g.wchoice(kinds)
            fl = g.float_tensors()
            if not fl:
                break
            # bias to recent tensors so that depth grows
            src = fl[-1 - min(len(fl) - 1, int(abs(rng.gauss(0, 2))))] if rng.random() < 0.7 else g.choice(fl)
            if k in ("view", "adv"):
                h = g.op_view(src) if k == "view" else g.op_adv_getitem(src)
            else:
                h = getattr(g, "op_" + k)(src)
            if h is not None:
                made += 1
        fl = [h for h in g.float_tensors() if not g.t[h].const]
        if not fl:
            return {"prop": self.id, "cfg": cfg, "events": g.ev}
        consumed = set()
        for ev in g.ev:
            consumed.update(_ev_deps(ev))
        sinks = [h for h in fl if h not in consumed]
        if rng.random() < 0.6 and sinks:
            terms = [[h, (float(rng.randint(1, 3)) if cfg["exact"] else round(rng.uniform(0.5, 2), 2))] for h in sinks[:6]]
            L = g.new_h()
            g.emit({"k": "terminal", "out": L, "terms": terms})
        else:
            fl.sort(key=lambda h: g.t[h].depth)
            L = fl[-1]
        seed = None
        base = list(g.ev)
        k_sched = rng.randint(2, 4)
        events = []
        OFF = 1000
        for j in range(k_sched):
            evs = [_rename(e, j * OFF) for e in base]
            if j > 0:
                evs = self._reschedule(evs, rng)
            # bystanders: an unrelated graph and consumers L does not depend on
            extra = []
            nb = rng.randint(0, 3)
            for b in range(nb):
                hb = j * OFF + 900 + 3 * b
                extra.append({"k": "leaf", "out": hb, "arr": enc_arr(np.array([1.0, 2.0, float(b)])), "constant": None})
                extra.append({"k": "op", "op": "mul", "out": hb + 1, "args": [{"t": hb}, {"t": hb}], "p": {}, "spell": "f"})
            for e in extra:
                evs.insert(rng.randint(0, len(evs)), e) if e["k"] == "leaf" else None
            # ops of bystanders after their leaves
            for e in extra:
                if e["k"] == "op":
                    pos = next(i for i, x in enumerate(evs) if x.get("out") == e["args"][0]["t"])
                    evs.insert(rng.randint(pos + 1, len(evs)), e)
            # a consumer of one of L's inputs that L does not depend on
            cands = [e["out"] for e in evs if e["k"] in ("leaf", "op") and e.get("out", 0) % OFF < 900]
            if cands and rng.random() < 0.6:
                c = rng.choice(cands)
                pos = next(i for i, x in enumerate(evs) if x.get("out") == c)
                evs.insert(rng.randint(pos + 1, len(evs)), {"k": "op", "op": "mul", "out": j * OFF + 990, "args": [{"t": c}, {"c": 2.0}], "p": {}, "spell": "f"})
            if rng.random() < 0.3:
                evs.insert(rng.randint(0, len(evs)), {"k": "gc"})
            # early drops of intermediates (after their last use)
            if rng.random() < 0.5:
                last_use = {}
                for i, e in enumerate(evs):
                    for d in _ev_deps(e):
                        last_use[d] = i
                for h, i in sorted(last_use.items(), key=lambda x: -x[1]):
                    if h != L + j * OFF and rng.random() < 0.3:
                        prod = next((x for x in evs if x.get("out") == h), None)
                        if prod is not None and prod["k"] == "op":
                            evs.insert(i + 1, {"k": "drop", "kind": "T", "h": h, "cycle": False})
            evs.append({"k": "sched", "j": j, "off": j * OFF})
            evs.extend(self.final_events(rng, g, L, j, j * OFF))
            evs.extend(self.post_backward(rng, [e["out"] for e in evs if e["k"] in ("leaf", "op") and "out" in e]))
            evs.append({"k": "sched_end", "j": j, "off": j * OFF})
            events.extend(evs)
        add_faults(g, events, rng, cfg)
        return {"prop": self.id, "cfg": cfg, "events": events}

    def motifs(self, rng, g, cfg):
        pass

    def kinds(self, cfg, rng):
        return [("unary", 3), ("binary", 6), ("reduce", 2), ("view", 4), ("adv", 1), ("matmul", 1), ("einsum", 1), ("where", 1), ("clip", 0 if cfg["exact"] else 1),
                ("join", 1), ("seq", 1), ("cumsum", 1), ("power", 1)]

    def post_backward(self, rng, handles):
        return []

    def final_events(self, rng, g, L, j, off):
        return [{"k": "backward", "tgt": L + off}]

    def _reschedule(self, evs, rng):
        # random linear extension
        produced_by = {e["out"]: i for i, e in enumerate(evs) if "out" in e}
        n = len(evs)
        deps = [set(produced_by[d] for d in _ev_deps(e) if d in produced_by) for e in evs]
        done = set()
        order = []
        ready = [i for i in range(n) if not deps[i]]
        while ready:
            i = ready.pop(rng.randrange(len(ready)))
            order.append(i)
            done.add(i)
            for k in range(n):
                if k not in done and k not in ready and deps[k] <= done:
                    ready.append(k)
        out = [evs[i] for i in order]
        for e in out:
            if e["k"] == "op":
                if e["op"] in COMMUTATIVE and rng.random() < 0.6:
                    e["args"] = e["args"][::-1]
                elif e["op"] in ("add_sequence", "multiply_sequence"):
                    rng.shuffle(e["args"])
                if rng.random() < 0.3:
                    e.pop("spell", None)
            elif e["k"] == "terminal":
                rng.shuffle(e["terms"])
        return out

    def observers(self, hist):
        return [O.GradOracle("C01"), O.CrossScheduleOracle("C01")]

    def nontrivial(self, world):
        return world.probes.get("c01.cross_schedule_ok", 0) > 0 and world.probes.get("grad.judged_backward", 0) >= 2


register(C01())


class C06(C01):
    id = "C06"
    title = "a view's gradient is the view of its base's gradient"
    rule = (
        "view-heavy dataflow DAGs (chains of slices/reshapes/transposes/diagonals/new axes, views of views, consumers of base and views in "
        "any combination) under 2-4 contribution schedules, followed by a read schedule of .grad accesses interleaved with drops and gc; "
        "non-trivial when at least one view's gradient was compared with the view of its base's gradient; distinct by (event kind, outcome)"
    )
    expected_probes = ["c06.view_grad_ok", "c06.base_grad_noncontiguous"]

    leaf_min_ndim = 2
    max_ndim_choices = [2, 2, 3]

    def generate(self, rng):
        h = super().generate(rng)
        h["prop"] = self.id
        return h

    def kinds(self, cfg, rng):
        return [("unary", 2), ("binary", 5), ("reduce", 2), ("view", rng.choice([8, 12])), ("adv", 0.5), ("matmul", 1), ("einsum", 1.5), ("where", 0.5), ("join", 0.5), ("seq", 0.5)]

    def motifs(self, rng, g, cfg):
        """layout motif: a Fortran-ordered base whose flattening is a view only *because of* that
        layout (x.T.reshape(-1)), and a consumer whose contribution to x.grad is a fresh array in
        another layout (matmul / einsum): the stored gradient has to mirror x's layout for the
        view's gradient to be a view of it"""
        if rng.random() >= 0.3:
            return
        keep = cfg.get("f_order_p")
        cfg["f_order_p"] = 1.0
        try:
            # (a float32/float16 base additionally receives its float64 contribution through a cast)
            x = g.leaf(shape=(rng.randint(2, 3), rng.randint(2, 3)), dtype=rng.choice(["f8", "f8", "f4", "f2"]), constant=None)
        finally:
            cfg["f_order_p"] = keep
        v1 = g._emit_op("transpose", [{"t": x}], {"axes": None, "T": rng.random() < 0.5}, view_src=x)
        if v1 is not None:
            g._emit_op(rng.choice(["ravel", "reshape"]), [{"t": v1}], {"shape": [-1], "splat": False}, view_src=v1)
        if rng.random() < 0.7:
            g.op_matmul(x)
        else:
            g.op_einsum(x)

    def post_backward(self, rng, handles):
        """the read schedule: .grad reads in random order and repetition, interleaved with drops and gc"""
        evs = []
        hs = list(handles)
        for _ in range(rng.randint(1, 5)):
            c = rng.random()
            if c < 0.6 and hs:
                evs.append({"k": "readgrad", "hs": rng.sample(hs, rng.randint(1, min(4, len(hs))))})
            elif c < 0.8 and hs:
                h = hs.pop(rng.randrange(len(hs)))
                evs.append({"k": "drop", "kind": "T", "h": h, "cycle": rng.random() < 0.3})
            else:
                evs.append({"k": "gc"})
        evs.append({"k": "readgrad", "hs": hs})
        return evs

    def observers(self, hist):
        return [O.ViewGradOracle()]

    def nontrivial(self, world):
        return world.probes.get("c06.view_grad_ok", 0) > 0


register(C06())


class C09(Prop):
    id = "C09"
    title = "backprop through a partially cleared graph fails loudly"
    rule = (
        "a shared trunk (leaves, intermediates, views) with 2-4 terminals; a middle section of backward/clear_graph on some terminals, "
        "in-place updates on shared tensors and views, re-use of shared tensors, null_grad; then backward on a remaining terminal.  "
        "non-trivial when a backward was attempted on a terminal whose recorded graph had been partially cleared; distinct by (event kind, outcome)"
    )
    expected_probes = ["c09.tainted_backward", "c09.invalid_backprop", "c09.tainted_backward_succeeded"]

    def generate(self, rng):
        cfg = {
            "lane": "plain",
            "id_policy": "never",
            "max_elems": rng.choice([4, 8]),
            "max_ndim": rng.choice([1, 2]),
            "dtypes": ["f8"],
            "tape": True,
            "exact": rng.random() < 0.6,
        }
        g = Gen(rng, cfg)
        for _ in range(rng.randint(1, 3)):
            g.leaf(shape=g.rand_shape(min_ndim=1))
        trunk = list(g.float_tensors())
        for _ in range(rng.randint(1, 6)):
            src = g.choice(trunk)
            k = g.wchoice([("unary", 2), ("binary", 4), ("view", 3), ("reduce", 1)])
            h = g.op_view(src) if k == "view" else getattr(g, "op_" + k)(src) if k != "binary" else g.op_binary(src, allow_arrays=False)
            if h is not None:
                trunk.append(h)
        heads = []

        def new_head():
            src = [h for h in trunk if h in g.t]
            if not src:
                return None
            k = rng.randint(1, min(3, len(src)))
            picks = rng.sample(src, k)
            if rng.random() < 0.5:
                # an op on a trunk tensor first (a consumer recorded on the shared tensor)
                h2 = g.op_binary(picks[0], allow_arrays=False) or g.op_unary(picks[0])
                if h2 is not None:
                    picks[0] = h2
            L = g.new_h()
            terms = [[p, float(rng.randint(1, 3))] for p in picks]
            g.emit({"k": "terminal", "out": L, "terms": terms})
            from .gen import G

            g.fam_id += 1
            g.t[L] = G(np.asarray(0.0), False, g.epoch, g.fam_id, depth=50)
            heads.append(L)
            return L

        for _ in range(rng.randint(2, 4)):
            new_head()
        if not heads:
            return {"prop": self.id, "cfg": cfg, "events": g.ev}
        final = heads.pop(rng.randrange(len(heads)))
        for _ in range(rng.randint(1, 8)):
            k = g.wchoice([("backward", 4), ("clear", 2), ("setitem", 3), ("iop", 2), ("ufunc", 2), ("reuse", 4), ("null_grad", 1), ("head", 1), ("view", 1), ("failop", 1.5)])
            live_trunk = [h for h in trunk if h in g.t and g.t[h].val.dtype.kind == "f"]
            if k == "failop" and live_trunk:
                # a statement on a shared tensor that fails (operands that do not broadcast): it
                # must not count as a re-use of a cleared tensor
                src = g.choice(live_trunk)
                bad = tuple(d + 1 for d in g.t[src].val.shape) + (2,) if g.t[src].val.ndim else (2, 3)
                other = {"n": enc_arr(np.ones(bad))}
                if g.t[src].val.ndim == 0:
                    g.emit({"k": "op", "op": "matmul", "out": g.new_h(), "args": [{"t": src}, other], "p": {}, "spell": "f", "fail": 1})
                else:
                    g.emit({"k": "op", "op": rng.choice(["add", "mul", "sub"]), "out": g.new_h(), "args": [{"t": src}, other], "p": {}, "spell": "f", "fail": 1})
                continue
            if k == "backward" and heads:
                g.backward(heads.pop(rng.randrange(len(heads))))
            elif k == "clear":
                tgt = g.choice(heads + live_trunk) if heads or live_trunk else None
                if tgt is not None:
                    g.clear(tgt)
                    if tgt in heads:
                        heads.remove(tgt)
            elif k == "setitem" and live_trunk:
                g.inplace_setitem(g.choice(live_trunk), adv_p=0.2)
            elif k == "iop" and live_trunk:
                g.inplace_iop(g.choice(live_trunk))
            elif k == "ufunc" and live_trunk:
                g.inplace_ufunc(g.choice(live_trunk))
            elif k == "reuse" and live_trunk:
                src = g.choice(live_trunk)
                h = g.op_binary(src, allow_arrays=False) if rng.random() < 0.7 else g.op_unary(src)
                if h is not None and rng.random() < 0.4:
                    trunk.append(h)
            elif k == "null_grad" and live_trunk:
                g.emit({"k": "null_grad", "tgt": g.choice(live_trunk)})
            elif k == "head":
                new_head()
            elif k == "view" and live_trunk:
                h = g.op_view(g.choice(live_trunk))
                if h is not None:
                    trunk.append(h)
        g.backward(final)
        for L in heads:
            if rng.random() < 0.5:
                g.backward(L)
        return {"prop": self.id, "cfg": cfg, "events": g.ev}

    def observers(self, hist):
        return [O.PartialClearOracle()]

    def nontrivial(self, world):
        return world.probes.get("c09.tainted_backward", 0) > 0


register(C09())


# ======================================================================================
# twin histories (C10, C13, C18)
# ======================================================================================
def run_twin(hist, events, cfg_over=None):
    import copy

    th = {"prop": hist["prop"], "cfg": dict(hist["cfg"]), "events": events, "seed": hist.get("seed", 0), "_is_twin": True}
    th["cfg"]["checkpoints"] = True
    if cfg_over:
        th["cfg"].update(cfg_over)
    return run_history(th, use_known=False)


def compare_checkpoints(w, tw, prop, oracle, grads="reach", skip_handles=(), what="twin", skip_grad_handles=()):
    """bit-identical values (and gradients) at every backward checkpoint of the two executions"""
    a, b = w.checkpoints, tw.checkpoints
    if len(a) != len(b):
        w.count("twin.checkpoint_count_differs")
        return False
    for ca, cb in zip(a, b):
        if ca["tgt"] != cb["tgt"]:
            w.count("twin.checkpoint_target_differs")
            return False
        for h, sa in ca["state"].items():
            if h in skip_handles or h not in cb["state"]:
                continue
            sb = cb["state"][h]
            if sa[:3] != sb[:3]:
                w.violation(prop, f"{oracle}_value", f"checkpoint at step {ca['step']}: handle {h} holds different values in the {what} history", tag=f"{oracle}_value")
                return True
            if grads == "none":
                continue
            if grads == "reach" and not (h in ca["reach"] and h in cb["reach"]):
                continue
            if h in skip_grad_handles:
                continue
            if (len(sa) > 5 and sa[5]) or (len(sb) > 5 and sb[5]):
                continue  # a left-over view's gradient depends on whether .grad was read before (cache): not judged
            if sa[3] != sb[3]:
                ga = None if sa[3] is None else np.frombuffer(sa[3][0], dtype=sa[3][1]).tolist()
                gb = None if sb[3] is None else np.frombuffer(sb[3][0], dtype=sb[3][1]).tolist()
                w.violation(prop, f"{oracle}_grad", f"checkpoint at step {ca['step']}: handle {h} has gradient {ga!r:.100} but {gb!r:.100} in the {what} history", tag=f"{oracle}_grad")
                return True
    w.probe("twin.compared")
    return False


def _filter_events(events, drop_ids):
    out = []
    for ev in events:
        if id(ev) in drop_ids:
            continue
        if ev["k"] == "scope":
            ev = dict(ev)
            ev["body"] = _filter_events(ev.get("body", []), drop_ids)
        out.append(ev)
    return out


# ======================================================================================
# C13 - a failed operation leaves no trace
# ======================================================================================
class C13(Prop):
    id = "C13"
    title = "a failed operation leaves no trace"
    rule = (
        "epoch / lock histories with failing statements of every kind (natural: bad shapes, indices, axes, read-only targets, bad out=, bad "
        "seeds, bad .shape; injected kernel failures) inserted anywhere, GC pre-emption during rollback; snapshot-before = snapshot-after for "
        "every live object, and the twin history without the failing statements ends bit-identically.  non-trivial when >=1 statement failed "
        "and the twin comparison ran; distinct by (event kind, outcome)"
    )
    expected_probes = ["c13.failed_statement_checked", "twin.compared"]

    def generate(self, rng):
        cfg = {
            "lane": rng.choice(["epoch", "epoch", "lock"]),
            "id_policy": rng.choice(["never", "never", "lifo"]),
            "max_elems": rng.choice([6, 12]),
            "max_ndim": rng.choice([1, 2, 3]),
            "dtypes": rng.choice([["f8"], ["f8", "f4"]]),
            "tape": True,
            "exact": rng.random() < 0.5,
            "checkpoints": True,
            "kernel_fault_p": rng.choice([0.05, 0.1, 0.2]),
            "gc_preempt_p": rng.choice([0.0, 0.0, 0.1]),
        }
        if cfg["exact"]:
            cfg["dtypes"] = ["f8"]
        g = Gen(rng, cfg)
        if cfg["lane"] == "epoch":
            w = {"view": 4, "adv": 1, "read": 3, "setitem": 3, "iop": 2, "ufunc": 2, "setshape": rng.choice([0, 1]), "drop": 0.5, "leaf": 0.5, "fail": rng.choice([2, 4])}
            eg = EpochGen(g, {"weights": w, "max_events": rng.choice([8, 14]), "end": [("backward", 1)], "only_fresh": rng.random() < 0.6})
            eg.run(rng.randint(1, 3 + DEPTH - 1))
        else:
            c8 = PROPS["C08"]
            w = {"arr": 2, "aview": 1, "wrap": 2, "leaf": 2, "grab": 1, "unary": 3, "binary": 5, "reduce": 2, "view": 4, "adv": 1, "out_arr": 2, "setitem": 3, "iop": 2,
                 "ufunc": 3, "backward": 2, "clear": 0.5, "null_grad": 0.3, "drop_t": 3, "drop_a": 0.5, "gc": 0.5, "scope": 0.5, "toggle": 0, "write": 1, "fail": 4, "misc": 1}
            c8._body(g, rng.randint(10, 35), w, 0)
            hs = [h for h in g.float_tensors() if not g.t[h].const]
            if hs:
                g.backward(g.choice(hs))
        # a bad seed as a failing backward
        add_faults(g, g.ev, rng, cfg)
        if cfg["lane"] == "epoch" and rng.random() < 0.12:
            replay_identity_motif(g, random.Random(rng.getrandbits(64)), with_failure=True)
        return {"prop": self.id, "cfg": cfg, "events": g.ev}

    def observers(self, hist):
        # the lock clause ("arrays locked only on behalf of the failed operation are released") is
        # judged by the C08 lock model right after every failed statement
        return [O.NoTraceOracle(), O.LockOracle("C13", only_after_failure=True)]

    def after_run(self, hist, w):
        if not w.failed_events:
            return
        if any(v.get("property") == "C13" for v in w.known_hits):
            # a listed finding already says that one failed statement of this run DID leave a trace;
            # the twin would only report its consequence a second time
            w.count("twin.skipped_after_known_finding")
            return
        ev2 = _filter_events(hist["events"], set(w.failed_events))
        tw = run_twin(hist, ev2)
        if tw.failed_events:
            # removing a failing statement changed what another statement does: not comparable
            w.count("twin.incomparable")
            return
        compare_checkpoints(w, tw, "C13", "C13.twin", what="failing-statements-removed", skip_grad_handles=w.twin_skip_grad)

    def nontrivial(self, world):
        return world.probes.get("c13.failed_statement_checked", 0) > 0


register(C13())


# ======================================================================================
# C10 - constant semantics
# ======================================================================================
class C10(Prop):
    id = "C10"
    title = "constant semantics"
    rule = (
        "DAG and mutation histories in which every leaf gets a dtype (float/int/bool) and constant in {None, True, False}, every op gets "
        "constant in {None, True, False}, operands mix tensors, arrays and scalars; flags compared with the rules after every statement, "
        "gradients with the tape (constant edges cut), and a twin run with eligible constant leaves replaced by plain arrays must give "
        "bit-identical gradients.  non-trivial when a backward was judged in a history containing >=1 constant tensor; distinct by (kind, outcome)"
    )
    expected_probes = ["c10.flags_checked", "grad.judged_backward", "twin.compared"]

    def generate(self, rng):
        cfg = {
            "lane": "plain",
            "id_policy": "never",
            "max_elems": rng.choice([6, 12]),
            "max_ndim": rng.choice([1, 2, 3]),
            "dtypes": rng.choice([["f8", "i8"], ["f8", "f4", "b1"], ["f8", "i4", "b1"], ["f8"]]),
            "tape": True,
            "exact": rng.random() < 0.5,
            "const_flags": True,
            "view_const_flags": rng.random() < 0.5,
            "checkpoints": True,
        }
        if cfg["exact"]:
            cfg["dtypes"] = [d for d in cfg["dtypes"] if d != "f4"]
        g = Gen(rng, cfg)
        w = {"view": 3, "adv": 1, "read": 5, "setitem": rng.choice([0, 2]), "iop": rng.choice([0, 1]), "ufunc": rng.choice([0, 1]), "setshape": 0, "drop": 0.3, "leaf": 2, "fail": 0, "badleaf": 0.5}
        eg = EpochGen(g, {"weights": w, "max_events": rng.choice([8, 14]), "end": [("backward", 1)], "max_owners": 4})
        eg.run(rng.randint(1, 2 + DEPTH - 1))
        return {"prop": self.id, "cfg": cfg, "events": g.ev}

    def observers(self, hist):
        return [O.ConstOracle(), O.GradOracle("C10")]

    def after_run(self, hist, w):
        # twin: constant leaves that are only ever read as operands -> plain arrays
        evs = hist["events"]
        leafs = {e["out"]: e for e in evs if e["k"] == "leaf"}
        elig = set()
        for h, e in leafs.items():
            d = e["arr"]["d"]
            c = e.get("constant")
            if c is True or (c is None and not d.startswith("f")):
                elig.add(h)
        for e in evs:
            k = e["k"]
            if k == "leaf":
                continue
            if k == "op":
                from .ops import OPS

                for n, r in enumerate(e.get("args", [])):
                    if "t" in r and r["t"] in elig and (OPS[e["op"]].view_capable or OPS[e["op"]].rearrange or e.get("spell") == "m"):
                        elig.discard(r["t"])
            elif k == "inplace":
                elig.discard(e["tgt"])
            else:
                for key in ("tgt", "h", "src"):
                    if key in e:
                        elig.discard(e[key])
                for hh, _ in e.get("terms", []):
                    elig.discard(hh)
        if not elig:
            return
        import copy

        ev2 = []
        for e in evs:
            if e["k"] == "leaf" and e["out"] in elig:
                ev2.append({"k": "arr", "out": e["out"], "arr": e["arr"], "ro": False})
                continue
            e2 = copy.deepcopy(e)
            for r in e2.get("args", []):
                if "t" in r and r["t"] in elig:
                    r["a"] = r.pop("t")
            ev2.append(e2)
        tw = run_twin(hist, ev2)
        compare_checkpoints(w, tw, "C10", "C10.twin_arrays", grads="all", skip_handles=elig, what="constants-replaced-by-arrays")

    def nontrivial(self, world):
        return world.probes.get("grad.judged_backward", 0) > 0 and world.probes.get("c10.flags_checked", 0) > 0


register(C10())


# ======================================================================================
# C14 - seeding backward; shape/dtype of stored gradients
# ======================================================================================
def rand_seed_ref(g, rng, shape, kind=None):
    """a seed that broadcasts to `shape` (or, for kind='bad', one that does not)"""
    kind = kind or rng.choice(["scalar", "0d", "full", "lower", "ones", "arr", "tensor", "rowview", "list"])
    shape = tuple(shape)
    if kind == "bad":
        c = rng.random()
        if c < 0.4:
            bad = (2,) + shape if shape else (2,)  # extra leading dim
        elif c < 0.8 and shape:
            bad = shape[:-1] + (shape[-1] + 1,)
        else:
            bad = shape + (3,)
        return {"n": enc_arr(np.ones(bad))}
    if kind == "scalar":
        return {"c": float(rng.randint(1, 3))}
    if kind == "0d":
        return {"n": enc_arr(np.array(float(rng.randint(1, 3))))}
    if kind == "lower" and len(shape) > 1:
        return {"n": enc_arr(g.rand_vals(shape[1:], "f8"))}
    if kind == "ones" and shape:
        s1 = tuple(1 if rng.random() < 0.5 else d for d in shape)
        return {"n": enc_arr(g.rand_vals(s1, "f8"))}
    if kind == "arr":
        return {"a": g.arr(shape=shape, dtype=rng.choice(["f8", "f4"]))}
    if kind == "rowview":
        # a seed that does not own its memory: one row of a larger caller array (or every other one)
        big = g.arr(shape=(2,) + shape, dtype="f8")
        h = g.new_h()
        ix = rng.choice([0, 1, -1])
        g.emit({"k": "aview", "out": h, "src": big, "index": enc_index(ix)})
        g.a[h] = g.a[big][ix]
        g.a_ro[h] = False
        return {"a": h}
    if kind == "list":
        return {"l": enc_arr(g.rand_vals(shape, "f8"))}
    if kind == "tensor":
        return {"t": g.leaf(shape=shape, dtype="f8", constant=rng.choice([None, True]))}
    return {"n": enc_arr(g.rand_vals(shape, rng.choice(["f8", "f4"])))}


class C14(C01):
    id = "C14"
    title = "seeding backward; shape/dtype of every stored gradient"
    rule = (
        "DAG programs with terminals of any shape (0-d, n-d, size-1 axes) over float16/32/64 leaves and nnet layers; seeds: none, scalar, 0-d, "
        "full, lower rank, size-1 axes, caller array, tensor, other dtype, and non-broadcastable ones as faults; the program is run twice: "
        "L.backward(g) and (L*g).sum().backward() must agree with each other and with the tape; after every statement every .grad is None or "
        "an ndarray of the tensor's shape and dtype.  non-trivial when the two forms were compared or a nnet-layer terminal was back-propagated"
    )
    expected_probes = ["c14.checked_after_backward", "c14.bad_seed_rejected", "c01.cross_schedule_ok"]
    dtype_choices = [["f8"], ["f8", "f4"], ["f4"], ["f2", "f4"], ["f2"]]

    def generate(self, rng):
        c = rng.random()
        if c < 0.25:
            return self._gen_nnet(rng)
        if c < 0.45:
            return self._gen_mutation(rng)
        self._seed = None
        h = super().generate(rng)
        h["prop"] = self.id
        return h

    def _gen_mutation(self, rng):
        """in-place / where-masked histories (gradients that reach a tensor through placeholders,
        masks and 0-d reductions), all float dtypes, seeded terminals"""
        cfg = {"lane": "mutation", "id_policy": "never", "max_elems": rng.choice([4, 8]), "max_ndim": rng.choice([0, 1, 2]), "dtypes": rng.choice(self.dtype_choices), "tape": True,
               "exact": False, "const_flags": False}
        g = Gen(rng, cfg)
        w = {"view": 3, "adv": 0.5, "read": 4, "setitem": 2, "iop": 2, "ufunc": 4, "setshape": 0.3, "drop": 0.3, "leaf": 1, "fail": 0}
        eg = EpochGen(g, {"weights": w, "max_events": rng.choice([5, 9]), "end": [("backward", 1)], "min_ndim": 0})
        eg.run(rng.randint(1, 2 + DEPTH - 1))
        return {"prop": self.id, "cfg": cfg, "events": g.ev}

    def _gen_nnet(self, rng):
        cfg = {"lane": "nnet", "id_policy": "never", "max_elems": 8, "max_ndim": 2, "dtypes": rng.choice([["f8"], ["f4"], ["f8", "f4"]]), "tape": True, "exact": False}
        g = Gen(rng, cfg)
        h = g.nnet()
        if rng.random() < 0.5:
            h2 = g.op_unary(h) or g.op_binary(h)
            h = h2 if h2 is not None and rng.random() < 0.7 else h
        shape = g.t[h].val.shape
        if rng.random() < 0.3:
            g.emit({"k": "backward", "tgt": h, "seed": rand_seed_ref(g, rng, shape, "bad"), "fail": 1})
        seed = None if rng.random() < 0.4 else rand_seed_ref(g, rng, shape)
        g.backward(h, seed=seed)
        return {"prop": self.id, "cfg": cfg, "events": g.ev}

    def kinds(self, cfg, rng):
        return [("unary", 3), ("binary", 6), ("reduce", 2), ("view", 3), ("adv", 1), ("matmul", 1), ("einsum", 1), ("where", 1), ("join", 1), ("seq", 1), ("cumsum", 1)]

    def final_events(self, rng, g, L, j, off):
        shape = g.t[L].val.shape if L in g.t else ()
        if j == 0:
            n0 = len(g.ev)
            self._seed = None if rng.random() < 0.25 else rand_seed_ref(g, rng, shape)
            evs = list(g.ev[n0:])  # the statements that create a caller-array / tensor seed
            if rng.random() < 0.35:
                evs.append({"k": "backward", "tgt": L + off, "seed": rand_seed_ref(g, rng, shape, "bad"), "fail": 1})
            ev = {"k": "backward", "tgt": L + off}
            if self._seed is not None:
                ev["seed"] = self._seed
            evs.append(ev)
            return evs
        # the equivalent spelling: (L*g).sum().backward()  /  L.sum().backward()
        evs = []
        cur = L + off
        if self._seed is not None:
            evs.append({"k": "op", "op": "mul", "out": off + 950, "args": [{"t": cur}, self._seed], "p": {}, "spell": "f"})
            cur = off + 950
        evs.append({"k": "op", "op": "sum", "out": off + 951, "args": [{"t": cur}], "p": {"axis": None, "keepdims": False}, "spell": "f"})
        evs.append({"k": "backward", "tgt": off + 951})
        return evs

    def observers(self, hist):
        if hist["cfg"].get("lane") == "nnet":
            return [O.GradShapeOracle()]
        if hist["cfg"].get("lane") == "mutation":
            return [O.GradShapeOracle(), O.GradOracle("C14")]
        return [O.GradShapeOracle(), O.GradOracle("C14"), O.CrossScheduleOracle("C14", skip_above=900)]

    def nontrivial(self, world):
        return world.probes.get("c14.checked_after_backward", 0) > 0


register(C14())


# ======================================================================================
# C12 - inputs never modified, gradients never aliased
# ======================================================================================
class C12(Prop):
    id = "C12"
    title = "inputs never modified, gradients never aliased"
    rule = (
        "mixed histories (ops on tensors/arrays/views, out=, in-place, nnet layers) with backward seeded by caller arrays (also one array "
        "re-used for two terminals), tensors, and arrays taken from .data/.grad, followed by copies/conversions of gradient-holding tensors; checksums of every caller-owned array and every tensor's data "
        "around every event; after backward pairwise grad/data aliasing and 'edit one gradient in place, re-checksum everything else'.  "
        "non-trivial when >=1 aliasing check ran after a seeded or unseeded backward; distinct by (event kind, outcome)"
    )
    expected_probes = ["c12.events_checked", "c12.alias_checked"]

    def generate(self, rng):
        cfg = {
            "lane": rng.choice(["mixed", "mixed", "nnet"]),
            "id_policy": "never",
            "max_elems": rng.choice([6, 12]),
            "max_ndim": rng.choice([1, 2, 3]),
            "dtypes": rng.choice([["f8"], ["f8", "f4"]]),
            "tape": True,
        }
        g = Gen(rng, cfg)
        c8 = PROPS["C08"]
        w = {"arr": 2, "aview": 1, "wrap": 2, "leaf": 3, "grab": 2, "unary": 3, "binary": 6, "reduce": 2, "view": 4, "adv": 1.5, "out_arr": 1, "setitem": 2, "iop": 1,
             "ufunc": 2, "backward": 0, "clear": 0.3, "null_grad": 0.3, "drop_t": 1.5, "drop_a": 0.3, "gc": 0.2, "scope": 0, "toggle": 0, "write": 0, "fail": 0, "misc": 2}
        n_rounds = rng.randint(1, 3)
        shared_seed = None
        for _ in range(n_rounds):
            if cfg["lane"] == "nnet" and rng.random() < 0.8:
                g.nnet()
            c8._body(g, rng.randint(4, 16), w, 0)
            hs = [h for h in g.float_tensors() if not g.t[h].const]
            if not hs:
                continue
            hs.sort(key=lambda h: -g.t[h].depth)
            tgt = hs[0] if rng.random() < 0.6 else rng.choice(hs)
            shape = g.t[tgt].val.shape
            c = rng.random()
            if c < 0.25:
                seed = None
            elif c < 0.5 and shared_seed is not None and g.a.get(shared_seed["a"]) is not None and g.a[shared_seed["a"]].shape == shape:
                seed = shared_seed  # the same caller array seeds a second terminal
            else:
                seed = rand_seed_ref(g, rng, shape, rng.choice(["arr", "arr", "tensor", "full", "scalar", "ones"]))
                if "a" in seed:
                    shared_seed = seed
            g.backward(tgt, seed=seed)
            if rng.random() < 0.5:
                hs2 = g.tensors()
                g.emit({"k": "readgrad", "hs": rng.sample(hs2, min(3, len(hs2)))})
            if rng.random() < 0.35:
                # snapshots of tensors that now hold gradients: t.copy() & co. carry a gradient of their own
                from .gen import G

                for src in rng.sample(hs, min(rng.randint(1, 2), len(hs))):
                    how = rng.choice(["copy", "copy", "astype", "tensor_copy"])
                    ev = {"k": "conv", "how": how, "src": src, "out": g.new_h()}
                    g.emit(ev)
                    g.fam_id += 1
                    g.t[ev["out"]] = G(np.array(g.t[src].val, copy=True), g.t[src].const, -1, g.fam_id)
        return {"prop": self.id, "cfg": cfg, "events": g.ev}

    def observers(self, hist):
        return [O.NoMutationOracle()]

    def nontrivial(self, world):
        return world.probes.get("c12.alias_checked", 0) > 0


register(C12())


# ======================================================================================
# C07 - backward releases the whole graph; gradients never go stale
# ======================================================================================
class C07(Prop):
    id = "C07"
    title = "backward releases the whole graph; gradients never go stale"
    rule = (
        "training-loop histories: persistent leaves, per iteration a DAG/mutation program over them (views of leaves, in-place updates on "
        "intermediates and leaves, masked out=, .shape=), backward, optional leaf update (tracked in-place or inside no_autodiff), null_grad, "
        "re-use of leaves; verbatim repeated iterations; handle-drop order varied; cyclic GC disabled (lane R) or driven by events and "
        "pre-emption (lane G).  non-trivial when the release oracle judged >=1 backward whose graph contained an in-place placeholder or >=3 "
        "ops; distinct by (event kind, outcome)"
    )
    expected_probes = ["c07.graph_fully_released", "c07.lifetime_checked", "c07.repeat_identical", "grad.judged_backward"]

    def generate(self, rng):
        cfg = {
            "lane": rng.choice(["R", "R", "G"]),
            "id_policy": "never",
            "max_elems": rng.choice([6, 12]),
            "max_ndim": rng.choice([1, 2]),
            "dtypes": rng.choice([["f8"], ["f8"], ["f8", "f4"]]),
            "tape": True,
            "exact": rng.random() < 0.5,
        }
        if cfg["exact"]:
            cfg["dtypes"] = ["f8"]
        if cfg["lane"] == "G":
            cfg["gc_preempt_p"] = rng.choice([0.05, 0.15])
            cfg["id_policy"] = rng.choice(["never", "lifo"])
        g = Gen(rng, cfg)
        leaves = [g.leaf(shape=g.rand_shape(min_ndim=1)) for _ in range(rng.randint(1, 3))]
        n_iter = rng.randint(2, 5 * DEPTH)
        it_id = 0
        last_body = None
        for it in range(n_iter):
            start = len(g.ev)
            h0 = g.next_h
            repeat = last_body is not None and rng.random() < 0.35
            if repeat:
                # verbatim repetition with fresh handles for the intermediates
                body, lo, hi = last_body
                off = g.next_h - lo
                for e in body:
                    g.emit(_rename_range(e, lo, hi, off))
                g.next_h = hi + off
                if g.tracking:
                    g.epoch += sum(1 for e in body if e["k"] == "backward")
                g.emit({"k": "iter_end", "id": it_id, "leaves": leaves, "rep_of": it_id - 1})
                it_id += 1
                last_body = None
                # forget generator state of the repeated intermediates
                continue
            lo = g.next_h
            mut_leaf = self._iteration(g, rng, leaves, cfg)
            hi = g.next_h
            body = g.ev[start:]
            g.emit({"k": "iter_end", "id": it_id, "leaves": leaves, "rep_of": None})
            it_id += 1
            # the iteration can be repeated verbatim only if it leaves the leaves' values alone and
            # refers only to leaves and its own intermediates
            ok = not mut_leaf and all(self._refs_ok(e, leaves, lo, hi) for e in body)
            last_body = (body, lo, hi) if ok else None
            # drop intermediates (some, all, none)
            c = rng.random()
            for h in [h for h in g.tensors() if h not in leaves]:
                if c < 0.5 or (c < 0.8 and rng.random() < 0.5):
                    g.drop_t(h, cycle=(cfg["lane"] == "G" and rng.random() < 0.2))
            if cfg["lane"] == "G" and rng.random() < 0.4:
                g.gc()
            # between iterations: update leaves / null_grad / nothing
            u = rng.random()
            if u < 0.3:
                self._update_leaves(g, rng, leaves)
                last_body = None
            elif u < 0.5:
                g.emit({"k": "null_grad", "tgt": rng.choice(leaves)})
        add_faults(g, g.ev, rng, cfg)
        return {"prop": self.id, "cfg": cfg, "events": g.ev}

    @staticmethod
    def _refs_ok(e, leaves, lo, hi):
        hs = _ev_deps(e) + ([e["out"]] if "out" in e else [])
        return all(h in leaves or lo <= h < hi for h in hs) and e["k"] in ("op", "terminal", "backward", "inplace", "setshape", "drop", "nnet", "leaf")

    def _iteration(self, g, rng, leaves, cfg):
        """one forward/backward step; returns True if a leaf's value was mutated"""
        mutated = False
        fresh = []
        n = rng.randint(2, 9)
        w = [("read", 5), ("view", 3), ("setitem", 1.5), ("iop", 1), ("ufunc", 1), ("leaf", 0.3), ("setshape", 0.2), ("drop", 0.5)]
        eg = EpochGen(g, {"weights": {}, "adv_p": 0.3})
        for _ in range(n):
            k = g.wchoice(w)
            pool = [h for h in leaves + fresh if h in g.t]
            if not pool:
                break
            src = g.choice(pool)
            if k == "read":
                h = eg._read(src)
            elif k == "view":
                h = g.op_view(src)
            elif k == "leaf":
                h = g.leaf()
            elif k == "drop":
                cand = [x for x in fresh if x in g.t]
                if cand and len(cand) > 1:
                    g.drop_t(g.choice(cand))
                h = None
            elif k == "setshape":
                if src not in leaves:
                    g.setshape(src)
                h = None
            else:
                if g.t[src].val.dtype.kind != "f":
                    continue
                fam_has_leaf = any(np.shares_memory(g.t[src].val, g.t[l].val) for l in leaves if l in g.t and g.t[l].val.size and g.t[src].val.size)
                r = getattr(g, {"setitem": "inplace_setitem", "iop": "inplace_iop", "ufunc": "inplace_ufunc"}[k])(src)
                if r is not None and fam_has_leaf:
                    mutated = True
                h = None
            if h is not None:
                fresh.append(h)
        terms = [h for h in fresh if h in g.t and g.t[h].val.dtype.kind == "f"]
        for l in leaves:
            if l in g.t and (mutated or rng.random() < 0.5):
                terms.append(l)  # (a mutated leaf must be upstream of L, else its graph is left half-cleared)
        L = eg._terminal(terms)
        if L is not None:
            g.backward(L)
        return mutated

    def _update_leaves(self, g, rng, leaves):
        how = rng.choice(["tracked", "no_autodiff", "no_autodiff"])
        evs = []
        for l in leaves:
            if l not in g.t or rng.random() < 0.3:
                continue
            step = {"c": 0.5 if not g.exact else 1.0}
            evs.append({"k": "inplace", "form": rng.choice(["isub", "iadd"]), "tgt": l, "args": [step]})
            f = np.subtract if evs[-1]["form"] == "isub" else np.add
            g._cow(l) if how == "tracked" else None
            f(g.t[l].val, step["c"], out=g.t[l].val)
        if not evs:
            return
        if how == "tracked":
            for e in evs:
                g.emit(e)
        else:
            g.emit({"k": "scope", "mgr": "no_autodiff", "style": rng.choice(["with", "deco"]), "body": evs, "raise": False})

    def observers(self, hist):
        return [O.GradOracle("C07"), O.ReleaseOracle(), O.GradLifetimeOracle(), O.RepeatOracle()]

    def nontrivial(self, world):
        return world.probes.get("c07.graph_fully_released", 0) + world.probes.get("c07.graph_released_except_retained", 0) > 0


def _rename_range(ev, lo, hi, off):
    import copy

    e = copy.deepcopy(ev)

    def m(h):
        return h + off if lo <= h < hi else h

    for key in ("out", "tgt", "h"):
        if key in e:
            e[key] = m(e[key])
    for r in e.get("args", []):
        if "t" in r:
            r["t"] = m(r["t"])
    if e["k"] == "terminal":
        e["terms"] = [[m(h), c] for h, c in e["terms"]]
    return e


register(C07())


# ======================================================================================
# C15 - no_autodiff / mem-guard switches
# ======================================================================================
class C15(Prop):
    id = "C15"
    title = "no_autodiff / mem-guard switches are scoped, exception-safe, value-preserving"
    rule = (
        "random scope trees (depth <=6, <=30 nodes; no_autodiff / mem_guard_on / mem_guard_off as with-blocks or decorators, re-entrant use of the "
        "same manager) whose bodies run MyGrad statements, process-wide toggles and explicit raises that unwind 1..k enclosing scopes; in half of the "
        "runs also scopes held open outside the call stack (generator suspended inside a with-block, ExitStack, manual __enter__) and left - "
        "normally or by an exception - in any order relative to scopes of the other setting; the per-setting stack model is compared with the switches after every enter/exit/statement and every untracked statement is checked for "
        "'nothing recorded'.  non-trivial when >=1 scope was left by an exception; distinct by (event kind, outcome)"
    )
    expected_probes = ["c15.switch_checked", "c15.exceptional_exit", "c15.untracked_statement_checked", "c15.held_scope_opened", "c15.interleaved_exit"]

    def generate(self, rng):
        cfg = {
            "lane": rng.choice(["bare", "programs", "programs"]),
            "id_policy": "never",
            "max_elems": 6,
            "max_ndim": 2,
            "dtypes": ["f8"],
            "tape": False,
            "toggles_anywhere": rng.random() < 0.3,
            "max_depth": rng.randint(1, 6),
            "max_nodes": rng.randint(3, 30),
            # constant=True/False forced on operations: constant tensors that own a recorded graph
            "const_flags": rng.random() < 0.4,
        }
        # interleavings: scopes held open outside the call stack (generator suspended inside a
        # with-block, ExitStack, manual __enter__) and left in any order relative to scopes of the
        # other setting
        cfg["held_p"] = rng.choice([0, 0, 0.15, 0.3])
        g = Gen(rng, cfg)
        self.nodes = 0
        self.vstack = {"track": [], "guard": []}
        self.n_held = 0
        g.leaf()
        g.leaf()
        g.arr()
        n_top = rng.randint(1, 5 * DEPTH)
        for _ in range(n_top):
            c = rng.random()
            if rng.random() < cfg["held_p"]:
                self._held(g, rng)
            elif c < 0.2:
                g.emit({"k": "toggle", "on": rng.random() < 0.5})
            elif c < 0.4 and cfg["lane"] != "bare":
                self._stmt(g, rng)
            else:
                self._scope(g, rng, cfg, 0, [])
        return {"prop": self.id, "cfg": cfg, "events": g.ev}

    _VAR = {"no_autodiff": "track", "mem_guard_on": "guard", "mem_guard_off": "guard"}

    def _held(self, g, rng):
        """open a held scope, or close one that is the innermost open scope of its own setting"""
        closable = [vs[-1][1] for vs in self.vstack.values() if vs and vs[-1][0] == "held"]
        if closable and rng.random() < 0.55:
            hid = rng.choice(closable)
            for vs in self.vstack.values():
                if vs and vs[-1] == ("held", hid):
                    vs.pop()
            g.emit({"k": "hold_close", "id": hid, "exc": rng.random() < 0.4})
        else:
            self.n_held += 1
            mgr = rng.choice(["no_autodiff", "mem_guard_on", "mem_guard_off"])
            self.vstack[self._VAR[mgr]].append(("held", self.n_held))
            g.emit({"k": "hold_open", "id": self.n_held, "mgr": mgr, "style": rng.choice(["gen", "gen", "stack", "manual"])})
        g.tracking = not self.vstack["track"]

    def _stmt(self, g, rng):
        c8 = PROPS["C08"]
        k = g.wchoice([("unary", 2), ("binary", 4), ("reduce", 1), ("view", 3), ("setitem", 2), ("iop", 1), ("ufunc", 2), ("backward", 1.5), ("leaf", 1), ("grab", 0.5), ("aview", 0.3),
                       ("wrap", 0.5), ("drop_t", 0.7), ("fail", 0.7), ("misc", 0.7), ("null_grad", 0.2)])
        if k == "backward" and not g.tracking and rng.random() < 0.5:
            hs = g.float_tensors()
            cs = [h for h in hs if g.t[h].const]
            if cs and rng.random() < 0.5:
                hs = cs  # (a constant tensor that still has a graph: backward must not even clear it)
            if hs:
                g.emit({"k": "backward", "tgt": rng.choice(hs)})  # must do nothing
            return
        getattr(c8, "_g_" + k)(g, {}, 0)

    def _scope(self, g, rng, cfg, depth, stack):
        if self.nodes >= cfg["max_nodes"]:
            return
        self.nodes += 1
        mgr = rng.choice(["no_autodiff", "mem_guard_on", "mem_guard_off"])
        ev = {"k": "scope", "mgr": mgr, "style": rng.choice(["with", "with", "deco"]), "body": []}
        outer = g._sink
        g._sink = ev["body"]
        key = ("with", self.nodes)
        vs = self.vstack[self._VAR[mgr]]
        vs.append(key)
        if mgr == "no_autodiff":
            g.tracking = False
        inside_mem = any(m != "no_autodiff" for m in stack + [mgr])
        for _ in range(rng.randint(0, 4)):
            c = rng.random()
            if rng.random() < cfg.get("held_p", 0):
                self._held(g, rng)
            elif c < 0.35 and depth + 1 < cfg["max_depth"]:
                self._scope(g, rng, cfg, depth + 1, stack + [mgr])
            elif c < 0.45 and (cfg["toggles_anywhere"] or inside_mem):
                # (main lane: toggles only where a mem-guard scope's exit must overwrite them)
                g.emit({"k": "toggle", "on": rng.random() < 0.5})
            elif c < 0.6:
                g.emit({"k": "raise", "levels": rng.randint(0, depth)})
                break
            elif cfg["lane"] != "bare":
                self._stmt(g, rng)
        g._sink = outer
        while vs and vs.pop() != key:
            pass  # same-setting scopes held open inside the body are closed with it
        g.tracking = not self.vstack["track"]
        g.emit(ev)

    def observers(self, hist):
        return [O.SwitchOracle(), O.NoAutodiffOracle()]

    def nontrivial(self, world):
        return world.probes.get("c15.exceptional_exit", 0) > 0


register(C15())


# ======================================================================================
# C18 - save/load round trip
# ======================================================================================
class C18(Prop):
    id = "C18"
    title = "save/load round-trips data, dtype and gradient"
    rule = (
        "save events placed anywhere in mixed histories (tensor in a live graph with locked memory, with/without gradient, views with view "
        "gradients, 0-d, every dtype, constants) to simulated file objects (seekable, at an offset, non-seekable, failing on the k-th write) and "
        "to scratch paths (str/Path), load events later; round-trip equality, 'save alters nothing' snapshots, and a twin history without the "
        "save/load events that must end bit-identically.  non-trivial when >=1 round trip of a tensor with a gradient was checked"
    )
    expected_probes = ["c18.save_checked", "c18.roundtrip_checked", "c18.roundtrip_with_grad"]

    def generate(self, rng):
        cfg = {
            "lane": rng.choice(["plain", "plain", "faults"]),
            "id_policy": "never",
            "max_elems": rng.choice([6, 12]),
            "max_ndim": rng.choice([1, 2, 3]),
            "dtypes": rng.choice([["f8"], ["f8", "f4", "f2"], ["f8", "i8", "b1"], ["f4", "i4"]]),
            "tape": True,
            "checkpoints": True,
            "const_flags": rng.random() < 0.3,
        }
        g = Gen(rng, cfg)
        c8 = PROPS["C08"]
        w = {"arr": 0.5, "aview": 0, "wrap": 0.5, "leaf": 3, "grab": 0.3, "unary": 3, "binary": 5, "reduce": 2, "view": 4, "adv": 1, "out_arr": 0, "setitem": 1.5, "iop": 1,
             "ufunc": 1, "backward": 2.5, "clear": 0.2, "null_grad": 0.3, "drop_t": 1, "drop_a": 0, "gc": 0, "scope": 0, "toggle": 0, "write": 0, "fail": 0, "misc": 1}
        fid = 0
        saved = []
        for _ in range(rng.randint(2, 6)):
            c8._body(g, rng.randint(2, 8), w, 0)
            hs = g.tensors()
            if hs and rng.random() < 0.85:
                src = rng.choice(hs)
                if rng.random() < 0.35:
                    sink = {"kind": "path", "as": rng.choice(["str", "Path"])}
                else:
                    sink = {"kind": "simfile", "seekable": rng.random() < 0.7, "offset": rng.choice([0, 0, 3, 17])}
                    if cfg["lane"] == "faults" and rng.random() < 0.4:
                        sink["fail_at"] = rng.randint(1, 6)
                g.emit({"k": "save", "src": src, "sink": sink, "id": fid})
                if "fail_at" not in sink:
                    saved.append(fid)
                fid += 1
            if saved and rng.random() < 0.7:
                h = g.new_h()
                g.emit({"k": "load", "out": h, "id": rng.choice(saved)})
        hs = [h for h in g.float_tensors() if not g.t[h].const]
        if hs:
            g.backward(rng.choice(hs))
        return {"prop": self.id, "cfg": cfg, "events": g.ev}

    def observers(self, hist):
        return [O.SaveLoadOracle()]

    def after_run(self, hist, w):
        if not any(e["k"] == "save" for e in hist["events"]):
            return
        ev2 = [e for e in hist["events"] if e["k"] not in ("save", "load")]
        loaded = {e["out"] for e in hist["events"] if e["k"] == "load"}
        tw = run_twin(hist, ev2)
        compare_checkpoints(w, tw, "C18", "C18.twin_without_save", grads="all", skip_handles=loaded, what="save-events-removed")

    def nontrivial(self, world):
        return world.probes.get("c18.roundtrip_with_grad", 0) > 0


register(C18())


# ======================================================================================
# C17 - construction and conversion (aliasing / identity clauses)
# ======================================================================================
class C17(Prop):
    id = "C17"
    title = "construction and conversion: copying, aliasing, identity"
    rule = (
        "histories of construction/conversion events (tensor/Tensor/astensor/asarray with copy/dtype/constant options on caller arrays and "
        "on tensors with or without a graph, copy(), astype()) followed by later writes of the caller into its arrays and by ops/backward; the "
        "aliasing model is confirmed by the actual later writes, astensor(t) identity keeps graph and gradient (twin without the call), "
        "copy()/astype() results are detached.  non-trivial when >=1 later write was checked against >=1 tensor built from that array"
    )
    expected_probes = ["c17.construction_checked", "c17.conversion_checked", "c17.later_write_checked"]

    def generate(self, rng):
        cfg = {
            "lane": rng.choice(["guard_on", "guard_off"]),
            "id_policy": "never",
            "max_elems": 6,
            "max_ndim": 2,
            "dtypes": rng.choice([["f8"], ["f8", "f4"], ["f8", "i8"]]),
            "tape": True,
            "checkpoints": True,
            "initial_guard": True,
        }
        g = Gen(rng, cfg)
        from .gen import G

        if cfg["lane"] == "guard_off":
            g.emit({"k": "toggle", "on": False})
        for _ in range(rng.randint(1, 3)):
            g.arr()
        g.leaf()
        for _ in range(rng.randint(5, 25 * DEPTH)):
            k = g.wchoice([("wrap", 5), ("conv", 4), ("awrite", 4), ("unary", 2), ("binary", 3), ("view", 1.5), ("backward", 1.5), ("arr", 1), ("drop_t", 1), ("leaf", 0.5), ("reduce", 1), ("create", 2.5)])
            if k == "create":
                if rng.random() < 0.15:
                    # inside no_autodiff the dtype gate is open (complex data is accepted there)
                    sc = {"k": "scope", "mgr": "no_autodiff", "style": "with", "body": []}
                    outer, g._sink = g._sink, sc["body"]
                    g.create()
                    g._sink = outer
                    g.emit(sc)
                else:
                    g.create()
                continue
            if k == "wrap":
                hs = sorted(g.a)
                if not hs:
                    continue
                src = rng.choice(hs)
                how = rng.choice(["tensor_copy", "tensor_nocopy", "astensor", "Tensor", "Tensor_nocopy"])
                v = g.a[src]
                dtc = None
                if rng.random() < 0.25:
                    dtc = rng.choice(["f8", "f4"])
                h = g.new_h()
                c = rng.choice([None, None, None, True])
                ndmin = 0
                if how != "astensor" and rng.random() < 0.3:
                    ndmin = rng.randint(0, v.ndim + 2)
                g.emit({"k": "wrap", "out": h, "src": src, "how": how, "constant": c, "dtype": dtc, "ndmin": ndmin})
                same_dt = dtc is None or np.dtype({"f8": np.float64, "f4": np.float32}[dtc]) == v.dtype
                shares = how in ("tensor_nocopy", "astensor", "Tensor_nocopy") and same_dt
                val = v if shares else np.array(v, dtype=({"f8": np.float64, "f4": np.float32}[dtc] if dtc else v.dtype), copy=True)
                if ndmin > val.ndim:
                    val = val[(None,) * (ndmin - val.ndim)]
                g.fam_id += 1
                g.t[h] = G(val, c if c is not None else (val.dtype.kind != "f"), -1, g.fam_id)
            elif k == "conv":
                hs = g.tensors()
                if not hs:
                    continue
                src = rng.choice(hs)
                how = rng.choice(["astensor", "astensor", "tensor_nocopy", "tensor_copy", "copy", "astype", "asarray"])
                v = g.t[src].val
                ev = {"k": "conv", "how": how, "src": src, "out": g.new_h()}
                if how in ("astensor", "tensor_nocopy", "tensor_copy", "astype") and rng.random() < 0.3 and v.dtype.kind == "f":
                    ev["dtype"] = rng.choice(["f8", "f4"])
                if how != "asarray" and rng.random() < 0.2:
                    ev["constant"] = rng.choice([True, False]) if v.dtype.kind == "f" else True
                if how == "astype" and rng.random() < 0.5:
                    ev["copy"] = False  # "if dtype and constant are satisfied, the input tensor is returned"
                g.emit(ev)
                if how == "asarray":
                    g.a[ev["out"]] = v
                    g.a_ro[ev["out"]] = False
                else:
                    dtc = ev.get("dtype")
                    npdt = {"f8": np.float64, "f4": np.float32}.get(dtc, v.dtype.type)
                    same = (dtc is None or np.dtype(npdt) == v.dtype) and (ev.get("constant") is None or ev["constant"] is g.t[src].const)
                    g.fam_id += 1
                    if (how in ("astensor", "tensor_nocopy") or (how == "astype" and ev.get("copy") is False)) and same:
                        g.t[ev["out"]] = g.t[src]
                    else:
                        g.t[ev["out"]] = G(np.array(v, dtype=npdt, copy=True), ev.get("constant", g.t[src].const if how in ("copy", "astype") else None) or False, -1, g.fam_id)
            elif k == "awrite":
                hs = sorted(g.a)
                if not hs:
                    continue
                a = rng.choice(hs)
                val = float(rng.randint(-9, 9)) + 0.5
                g.emit({"k": "awrite", "a": a, "val": val})
                if g.a[a].flags.writeable:
                    g.a[a][...] = val
            elif k == "backward":
                PROPS["C08"]._g_backward(g, {}, 0)
            elif k == "arr":
                g.arr()
            elif k == "drop_t":
                PROPS["C08"]._g_drop_t(g, {}, 0)
            elif k == "view":
                g.op_view()
            elif k == "leaf":
                g.leaf()
            else:
                getattr(g, "op_" + k)()
        hs = [h for h in g.float_tensors() if not g.t[h].const]
        if hs:
            g.backward(rng.choice(hs))
        return {"prop": self.id, "cfg": cfg, "events": g.ev}

    def observers(self, hist):
        return [O.AliasOracle(), O.CreationOracle(), O.GradOracle("C17", judge_keep=False)]

    def after_run(self, hist, w):
        # astensor(t) returned t itself: the history must behave exactly as if it had never been called
        aliases = dict(w.alias_of_all)
        if not aliases:
            return
        import copy

        ev2 = []
        groups = {}  # canonical handle -> handles (itself and its aliases) the caller still holds
        for a, c in aliases.items():
            groups.setdefault(c, {c}).add(a)
        for e in hist["events"]:
            if e["k"] == "conv" and e.get("out") in aliases:
                continue
            e2 = copy.deepcopy(e)
            for r in e2.get("args", []):
                if "t" in r and r["t"] in aliases:
                    r["t"] = aliases[r["t"]]
            for key in ("tgt", "src", "h"):
                if key in e2 and e2[key] in aliases and e2["k"] != "drop":
                    e2[key] = aliases[e2[key]]
            if e2["k"] == "drop" and e2.get("kind") == "T" and (e2["h"] in aliases or e2["h"] in groups):
                # one tensor behind several handles: it stays alive as long as any of them is held
                c = aliases.get(e2["h"], e2["h"])
                groups[c].discard(e2["h"])
                if groups[c]:
                    continue
                e2["h"] = c
            ev2.append(e2)
        tw = run_twin(hist, ev2)
        compare_checkpoints(w, tw, "C17", "C17.astensor_identity_twin", grads="all", skip_handles=set(aliases), what="astensor-calls-removed")

    def nontrivial(self, world):
        return world.probes.get("c17.later_write_checked", 0) > 0


register(C17())
