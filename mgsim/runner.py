"""Batch runner: worker subprocesses, known-findings classification, shrinking, replay files, evidence."""
import json
import os
import shutil
import subprocess
import sys
import tempfile
import time

VERIF = os.path.dirname(os.path.dirname(os.path.abspath(__file__)))
CHECK = os.path.join(VERIF, "check")
PY = "/venv/bin/python"
KNOWN_FILE = os.path.join(VERIF, "known_findings.json")
REPLAY_DIR = os.path.join(VERIF, "out", "replays")
EVIDENCE_DIR = os.path.join(VERIF, "evidence")

TIERS = {"quick": 45.0, "thorough": 600.0}


def load_known():
    try:
        with open(KNOWN_FILE) as f:
            return json.load(f)["findings"]
    except FileNotFoundError:
        return []


def match_known(known, prop, tag):
    for k in known:
        if k.get("status") != "known" or k.get("property") != prop:
            continue
        if tag.startswith(k["tag"]) and (not k.get("tag_requires") or k["tag_requires"] in tag):
            return k
    return None


# ------------------------------------------------------------------------------ worker side
def worker_main(args):
    """runs in a fresh interpreter: executes run indices start, start+stride, ... until the budget is
    used up; prints one JSON line per run that matters and a final summary line."""
    import faulthandler

    faulthandler.enable()
    from . import env

    env.ensure_pinned()
    from .props import PROPS, gen_history, h64, run_history
    from .shrink import shrink

    pid, seed, start, stride, budget, max_runs = args.prop, args.seed, args.start, args.stride, args.budget, args.max_runs
    faulthandler.dump_traceback_later(budget + 120, exit=True)
    known = load_known()
    out = open(args.out, "w")
    t0 = time.time()
    prop = PROPS[pid]
    n = 0
    idx = start
    agg = {"runs": 0, "events": 0, "stats": {}, "probes": {}, "nontrivial": 0, "distinct": set(), "states": set(), "samples": [], "known": {}, "violations": [], "coverage": {}}
    cov = None
    if start == 0:
        try:
            import coverage

            cov = coverage.Coverage(data_file=None, include=[os.path.join(env.REPO_SRC, "mygrad", x) for x in ("tensor_base.py", "operation_base.py", "_io.py", "_utils/*.py", "_tensor_core_ops/indexing.py")])
        except Exception:
            cov = None
    while True:
        if max_runs is not None and n >= max_runs:
            break
        if max_runs is None and time.time() - t0 > budget:
            break
        run_seed = h64(seed, pid, idx)
        # thorough tier: every third history is generated with the size knob doubled (longer DAGs,
        # more events per epoch, more epochs/iterations); a pure function of (tier, idx)
        try:
            hist = gen_history(pid, run_seed, 2 if (getattr(args, "tier", "quick") == "thorough" and idx % 3 == 2) else 1)
        except Exception:  # a generator bug is a harness failure of this run, not of the whole worker
            import traceback

            out.write(json.dumps({"type": "harness_error", "run_seed": run_seed, "idx": idx, "err": "generator: " + traceback.format_exc()[-1500:]}) + "\n")
            out.flush()
            idx += stride
            n += 1
            continue
        measure = cov is not None and n % 25 == 0
        try:
            if measure:
                cov.start()
            try:
                w = run_history(hist)
            finally:
                if measure:
                    cov.stop()
        except Exception as e:  # harness failure: never a pass, never a violation
            import traceback

            out.write(json.dumps({"type": "harness_error", "run_seed": run_seed, "idx": idx, "err": traceback.format_exc()[-2000:]}) + "\n")
            out.flush()
            idx += stride
            n += 1
            continue
        agg["runs"] += 1
        agg["events"] += w.nstep
        for k, v in w.stats.items():
            agg["stats"][k] = agg["stats"].get(k, 0) + v
        for k, v in w.probes.items():
            agg["probes"][k] = agg["probes"].get(k, 0) + v
        sig = h64(tuple(w.trace))
        if prop.nontrivial(w):
            agg["nontrivial"] += 1
            agg["distinct"].add(sig)
        if len(agg["samples"]) < 1 and prop.nontrivial(w):
            agg["samples"].append({"run_seed": run_seed, "events": hist["events"][:40], "digest": w.digest()})
        if args.digests:
            out.write(json.dumps({"type": "digest", "idx": idx, "run_seed": run_seed, "digest": w.digest()}) + "\n")
        for v in w.known_hits:
            k = match_known(known, v["property"], v["tag"])
            ent = agg["known"].setdefault(k["tag"], {"count": 0, "example_seed": run_seed, "msg": v["msg"]})
            ent["count"] += 1
        if w.violations:
            v = w.violations[0]
            # minimise, then hand to the parent (which re-verifies in a fresh interpreter)
            best, vv = shrink(hist, (v["property"], v["oracle"]))
            if vv is None:
                out.write(json.dumps({"type": "harness_error", "run_seed": run_seed, "idx": idx, "err": "violation did not reproduce in-process: " + json.dumps(v)}) + "\n")
            else:
                rec = {"type": "violation", "run_seed": run_seed, "idx": idx, "violation": vv, "orig_len": len(hist["events"]), "history": best}
                out.write(json.dumps(rec) + "\n")
                out.flush()
                agg["violations"].append(vv["tag"])
                if len(agg["violations"]) >= 3:
                    break
        idx += stride
        n += 1
    if cov is not None:
        try:
            data = cov.get_data()
            for f in data.measured_files():
                try:
                    _, stmts, _, missing, _ = cov.analysis2(f)
                    agg["coverage"][os.path.relpath(f, env.REPO_SRC)] = {"statements": len(stmts), "executed": len(stmts) - len(missing)}
                except Exception:
                    pass
        except Exception:
            pass
    agg["distinct"] = sorted(agg["distinct"])
    agg["states"] = len(agg["states"])
    agg["type"] = "summary"
    agg["wall"] = time.time() - t0
    out.write(json.dumps(agg) + "\n")
    out.close()
    faulthandler.cancel_dump_traceback_later()


# ------------------------------------------------------------------------------ replay
def replay_main(path):
    from . import env
    from .props import run_history

    with open(path) as f:
        rec = json.load(f)
    hist = rec["history"]
    w = run_history(hist)
    exp = rec["violation"]
    for v in w.violations:
        if v["property"] == exp["property"] and v["oracle"] == exp["oracle"]:
            print(f"reproduced: {v['msg']}")
            print(f"digest={w.digest()}")
            print(f"VIOLATION property={v['property']} replay={path}")
            return 1
    print(f"replay did not reproduce (expected {exp['oracle']}); violations now: {w.violations}")
    return 3


def verify_fresh(path):
    from .env import pinned_env

    r = subprocess.run([PY, CHECK, "--replay", path], env=pinned_env(), capture_output=True, text=True, timeout=300)
    return r.returncode == 1, r.stdout + r.stderr


# ------------------------------------------------------------------------------ parent side
def run_check(pid, tier, seed, workers=None, budget=None, max_runs=None, digests=False, quiet=False):
    from .env import pinned_env
    from .props import PROPS

    prop = PROPS[pid]
    workers = workers or int(os.environ.get("VERIF_WORKERS", os.cpu_count() or 4))
    budget = float(os.environ.get("VERIF_BUDGET_S", budget or TIERS[tier]))
    t0 = time.time()
    tmp = tempfile.mkdtemp(prefix="mgsim-")
    procs = []
    try:
        for k in range(workers):
            outp = os.path.join(tmp, f"w{k}.jsonl")
            cmd = [PY, CHECK, "--worker", "--prop", pid, "--seed", str(seed), "--start", str(k), "--stride", str(workers), "--budget", str(budget), "--out", outp, "--tier", tier]
            if max_runs is not None:
                cmd += ["--max-runs", str(max_runs)]
            if digests:
                cmd += ["--digests"]
            p = subprocess.Popen(cmd, env=pinned_env(), stdout=subprocess.DEVNULL, stderr=subprocess.PIPE, text=True)
            procs.append((p, outp))
        harness_errors = []
        deadline = time.time() + budget * 3 + 600
        for p, outp in procs:
            try:
                _, err = p.communicate(timeout=max(1, deadline - time.time()))
            except subprocess.TimeoutExpired:
                p.kill()
                _, err = p.communicate()
                harness_errors.append(f"worker timed out: {outp}")
                continue
            if p.returncode != 0:
                harness_errors.append(f"worker exit {p.returncode}: {err[-1500:]}")
            elif err and err.strip() and os.environ.get("MGSIM_DEBUG"):
                sys.stderr.write(err[-3000:])
        agg = {"runs": 0, "events": 0, "stats": {}, "probes": {}, "nontrivial": 0, "distinct": set(), "samples": [], "known": {}, "cpu_wall": 0.0, "coverage": {}}
        violations = []
        digest_lines = []
        for p, outp in procs:
            if not os.path.exists(outp):
                continue
            got_summary = False
            for line in open(outp):
                rec = json.loads(line)
                if rec["type"] == "summary":
                    got_summary = True
                    agg["runs"] += rec["runs"]
                    agg["events"] += rec["events"]
                    agg["nontrivial"] += rec["nontrivial"]
                    agg["distinct"].update(rec["distinct"])
                    agg["cpu_wall"] += rec["wall"]
                    for k, v in rec["stats"].items():
                        agg["stats"][k] = agg["stats"].get(k, 0) + v
                    for k, v in rec["probes"].items():
                        agg["probes"][k] = agg["probes"].get(k, 0) + v
                    for k, v in rec["known"].items():
                        e = agg["known"].setdefault(k, {"count": 0, "example_seed": v["example_seed"], "msg": v["msg"]})
                        e["count"] += v["count"]
                    agg["samples"].extend(rec["samples"])
                    for k, v in rec.get("coverage", {}).items():
                        agg["coverage"][k] = v
                elif rec["type"] == "violation":
                    violations.append(rec)
                elif rec["type"] == "harness_error":
                    harness_errors.append(f"run_seed={rec['run_seed']}: {rec['err']}")
                elif rec["type"] == "digest":
                    digest_lines.append(rec)
            if not got_summary and p.returncode == 0:
                harness_errors.append(f"worker produced no summary: {outp}")
    finally:
        shutil.rmtree(tmp, ignore_errors=True)
    wall = time.time() - t0
    # ---- report
    rc = 0
    reported = []
    os.makedirs(REPLAY_DIR, exist_ok=True)
    seen_tags = set()
    for rec in violations:
        v = rec["violation"]
        if v["tag"] in seen_tags:
            continue
        seen_tags.add(v["tag"])
        path = os.path.join(REPLAY_DIR, f"{pid}-{rec['run_seed']}.json")
        with open(path, "w") as f:
            json.dump(
                {
                    "property": v["property"],
                    "oracle": v["oracle"],
                    "tag": v["tag"],
                    "VERIF_SEED": seed,
                    "run_seed": rec["run_seed"],
                    "message": v["msg"],
                    "failing_step": v["step"],
                    "original_length": rec["orig_len"],
                    "violation": v,
                    "history": rec["history"],
                },
                f,
                indent=1,
            )
        ok, outtxt = verify_fresh(path)
        if ok:
            print(f"violation: {v['msg']}")
            print(f"VIOLATION property={v['property']} replay={path}")
            reported.append(v["tag"])
            rc = 1
        else:
            harness_errors.append(f"replay {path} did not reproduce in a fresh interpreter: {outtxt[-500:]}")
    for tag, e in sorted(agg["known"].items()):
        print(f"KNOWN-FINDING: property={pid} {tag} (seen {e['count']}x this run; e.g. run_seed={e['example_seed']}: {e['msg'][:160]})")
    if harness_errors:
        for h in harness_errors[:5]:
            print("HARNESS-ERROR " + h.replace("\n", " | ")[:1500])
        if rc == 0:
            rc = 2
    if not os.environ.get("MGSIM_NO_EVIDENCE"):
        write_evidence(pid, tier, seed, agg, wall, len(reported), workers, prop)
    if not quiet:
        rate = agg["runs"] / wall * 3600 if wall > 0 else 0
        print(
            f"{pid} {tier}: runs={agg['runs']} events={agg['events']} nontrivial_distinct={len(agg['distinct'])} wall={wall:.1f}s "
            f"({rate:.0f} runs/h) violations={len(reported)} known={sum(e['count'] for e in agg['known'].values())} harness_errors={len(harness_errors)}"
        )
    if digests:
        return rc, digest_lines
    return rc


REAL_VS_STUB = {
    "real": [
        "all of mygrad imported from /repo/src (working tree)",
        "NumPy kernels",
        "CPython reference counting, weakref and cyclic-GC machinery",
        "numba-decorated nnet kernels executed as their Python source (NUMBA_DISABLE_JIT=1)",
    ],
    "stub": [
        "id() inside mygrad._utils.lock_management (always the simulated allocator, so that no run depends on real addresses; ids of dead objects are re-issued only in the S3 lanes)",
        "the trigger of cyclic GC (gc disabled; fired by events and by PEP 669 line-event pre-emption)",
        "the exception raised by injected kernel faults (wrapper around Operation.__call__)",
        "file objects handed to save/load (SimFile)",
    ],
}


def write_evidence(pid, tier, seed, agg, wall, nviol, workers, prop):
    os.makedirs(EVIDENCE_DIR, exist_ok=True)
    faults = {k[len("fault.") :]: v for k, v in agg["stats"].items() if k.startswith("fault.")}
    faults["natural_failing_statement"] = agg["stats"].get("out.fail", 0)
    zero_probes = [k for k in getattr(prop, "expected_probes", []) if not agg["probes"].get(k)]
    ev = {
        "property_id": pid,
        "tier": tier,
        "seed": int(seed),
        "level": "exploration",
        "coverage": {
            "evaluations": int(agg["runs"]),
            "distinct_nontrivial": int(len(agg["distinct"])),
            "rule": prop.rule,
            "samples": agg["samples"][:3],
            "events_executed": int(agg["events"]),
            "logical_steps_covered": int(agg["events"]),
            "simulated_time": "no clock in the system under test; logical steps only",
            "runs_per_hour": (agg["runs"] / wall * 3600) if wall > 0 else 0,
            "seeds_per_hour": (agg["runs"] / wall * 3600) if wall > 0 else 0,
            "workers": workers,
            "faults_fired": faults,
            "outcomes": {k[4:]: v for k, v in agg["stats"].items() if k.startswith("out.")},
            "unexpected_exceptions": {k[6:]: v for k, v in agg["stats"].items() if k.startswith("unexp.")},
            "event_kinds": {k[3:]: v for k, v in agg["stats"].items() if k.startswith("ev.")},
            "probes": dict(sorted(agg["probes"].items())),
            "probes_stuck_at_zero": zero_probes,
            "known_findings_hit": {k: v["count"] for k, v in agg["known"].items()},
            "line_coverage_of_anchored_files_on_a_4pct_sample_of_worker_0": agg.get("coverage", {}),
            "distinct_interleavings_measure": "distinct sequences of (event kind, outcome class) over whole histories = distinct_nontrivial (restricted to non-trivial ones)",
            "real_vs_stub": REAL_VS_STUB,
        },
        "assumptions": [
            "NumPy is the reference for forward values and memory sharing",
            "the reference models in /verif/mgsim (tape, lock model, switch model) are correct; the tape validates itself against finite differences",
            "CPython 3.12 reference counting semantics",
        ],
        "wall_s": wall,
        "violations": int(nviol),
    }
    with open(os.path.join(EVIDENCE_DIR, f"{pid}.json"), "w") as f:
        json.dump(ev, f, indent=1, default=str)
