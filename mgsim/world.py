"""The simulated world: caller-held handles, the interpreter of events, M1 shadows, M2 tape hookup,
M3 op discovery.  Oracles are observers (mgsim/oracles.py) called around every event.

Rules kept here (DESIGN 2.1): model state is keyed by handle; identity is checked by weakref;
no strong reference to a MyGrad object survives a step outside T/A/parked.
"""
import gc
import hashlib
import operator
import weakref

import numpy as np

from . import env
from .codec import dec_arr, dec_index, dt
from .ops import NP_UFUNC, OPS, UFUNC_OUT
from .tape import Tape

mg = env.mg
Tensor = env.Tensor
_track = env._track
_mem = env._mem

FLOATS = (np.float16, np.float32, np.float64)


def is_float(dtype):
    return np.dtype(dtype).type in FLOATS


def clone_layout(arr):
    """a private copy of `arr` with exactly the same shape and strides (so that NumPy takes the
    same view-vs-copy decisions on the copy as on the original)"""
    root = arr
    while isinstance(root.base, np.ndarray):
        root = root.base
    try:
        if root.base is not None or not (root.flags.c_contiguous or root.flags.f_contiguous or root.size == 0):
            raise ValueError
        rc = np.array(root, copy=True, order="K")
        flat = rc.ravel(order="K")
        if flat.base is None and flat is not rc and rc.ndim > 0 and rc.size:
            # ravel copied: layout not reproducible this way
            raise ValueError
        off = arr.__array_interface__["data"][0] - root.__array_interface__["data"][0]
        if arr.size == 0:
            return np.array(arr, copy=True)
        new = np.ndarray(arr.shape, arr.dtype, buffer=flat, offset=off, strides=arr.strides)
        return new
    except Exception:
        return np.array(arr, copy=True)


class SimFile:
    """S6: an in-process binary file object handed to save()/load(): seekable or not, starting
    at an arbitrary offset, optionally failing (OSError ENOSPC) on its k-th write."""

    def __init__(self, seekable=True, offset=0, fail_at=None, data=b""):
        import io

        self._b = io.BytesIO(b"\0" * offset + data)
        self._b.seek(offset)
        self._seekable = seekable
        self.fail_at = fail_at
        self.writes = 0
        self.closed = False
        self.fired = False

    def write(self, b):
        self.writes += 1
        if self.fail_at is not None and self.writes >= self.fail_at:
            self.fired = True
            import errno

            raise OSError(errno.ENOSPC, "No space left on device (injected)")
        return self._b.write(b)

    def read(self, n=-1):
        return self._b.read(n)

    def readinto(self, b):
        return self._b.readinto(b)

    def readline(self, n=-1):
        return self._b.readline(n)

    def seekable(self):
        return self._seekable

    def readable(self):
        return True

    def writable(self):
        return True

    def seek(self, pos, whence=0):
        if not self._seekable:
            import io

            raise io.UnsupportedOperation("underlying stream is not seekable")
        return self._b.seek(pos, whence)

    def tell(self):
        if not self._seekable:
            import io

            raise io.UnsupportedOperation("underlying stream is not seekable")
        return self._b.tell()

    def flush(self):
        pass

    def close(self):
        self.closed = True

    def getvalue(self):
        return self._b.getvalue()


class Outcome:
    __slots__ = ("status", "exc", "msg", "expected_fail", "fault", "propagate")

    def __init__(self, status, exc=None, msg="", expected_fail=False, fault=None):
        self.status = status  # ok | skip | fail (expected) | unexp (raised where the model expected success) | nofail
        self.exc = exc
        self.msg = msg
        self.expected_fail = expected_fail
        self.fault = fault
        self.propagate = None

    def cls(self):
        if self.status in ("ok", "skip", "nofail"):
            return self.status
        return f"{self.status}:{self.exc}"


class Fam:
    """MyGrad-level view family (M2): the set of tensors MyGrad updates together."""

    __slots__ = ("owner_nid", "members", "born", "owner_ref", "owner_shape", "all_born_same", "hidden_owner", "__weakref__")

    def __init__(self, owner_nid, born, owner_tensor, shape):
        self.owner_nid = owner_nid
        self.members = {}  # handle -> ids array (None for the owner handle)
        self.born = born
        self.owner_ref = weakref.ref(owner_tensor) if owner_tensor is not None else None
        self.owner_shape = tuple(shape)
        self.hidden_owner = False


class TInfo:
    __slots__ = (
        "const", "nid", "fam", "ids", "born", "foreign", "ref", "orig_w", "entered", "vh", "grad_state", "untracked_born", "stale", "made_by", "chain_const",
    )

    def __init__(self):
        self.foreign = False
        self.entered = False
        self.orig_w = True
        self.vh = []
        self.grad_state = None
        self.untracked_born = False
        self.stale = False
        self.made_by = "leaf"
        self.chain_const = False  # some view between the owner and this view is a constant


class OpRec:
    __slots__ = ("ref", "name", "arrs", "at", "guard_on", "tensors", "out_ref", "tainted", "bases")

    def __init__(self, op, at, guard_on):
        self.ref = weakref.ref(op)
        self.name = type(op).__name__
        self.arrs = []  # weakrefs to ndarrays (inputs, then output)
        self.bases = []  # weakrefs to the base arrays of those (a view may die before the op does)
        self.tensors = []  # weakrefs to input tensors
        self.out_ref = None
        self.at = at
        self.guard_on = guard_on
        self.tainted = False


class Violation(Exception):
    pass


class BodyRaise(Exception):
    """raised inside scope bodies by the interpreter (S5)"""

    def __init__(self, levels):
        self.levels = levels


class HarnessError(Exception):
    pass


class World:
    def __init__(self, cfg=None, observers=()):
        self.cfg = cfg or {}
        self.T = {}
        self.A = {}
        self.S = {}  # tensor handle -> shadow ndarray
        self.SA = {}  # array handle -> shadow ndarray
        self.info = {}
        self.a_orig = {}  # array handle -> original writeable flag (None = unknown)
        self.a_entered = {}
        self.a_kind = {}  # array handle -> own | view | data | grad | asarray
        self.a_origin = {}  # array handle -> "caller" or the op that produced the memory
        self.a_born_ro = {}  # array handle -> the NumPy view was born read-only (owner locked then)
        self.parked = []  # handles dropped into reference cycles (alive until a gc)
        self.parked_T = []  # model view of parked tensors (weakrefs are useless: they are in a cycle)
        self.tape = Tape()
        self.use_tape = self.cfg.get("tape", True)
        self.clock = 0
        self.nstep = 0
        self.obs = list(observers)
        self.violations = []
        self.known_hits = []
        self._seen_tags = set()
        self.stats = {}
        self.probes = {}
        self.hash = hashlib.sha256()
        self.trace = []  # (kind, outcome class)
        self.oprecs = {}  # id(op) -> OpRec
        self.last_create = None
        self.clear_leak_seen = False
        self.scope_stack = []  # model M4: list of (mgr name, saved value)
        # scopes held open outside the call stack (suspended generator / ExitStack / manual
        # __enter__): they can be left in any order relative to scopes of the *other* setting
        self.held = {}
        self.var_stack = {"track": [], "guard": []}  # per setting: open scopes, oldest first
        self.scope_seq = 0
        self.tracking = True
        self.guard = True
        self.guard_default = True
        self.grad_poisoned = False
        self.aborted_backward = False
        self.graph_cycle_seen = False
        self.index_modified = False
        self.twin_skip_grad = set()
        self.exact = bool(self.cfg.get("exact", False))
        dts = self.cfg.get("dtypes", ["f8"])
        self.tol_dtype = np.float16 if "f2" in dts else (np.float32 if "f4" in dts else np.float64)
        self.need_discovery = any(getattr(o, "needs_ops", False) for o in self.obs)
        self.last_backward = None
        self.last_inplace = None
        self.last_conv = None
        self.alias_of = {}
        self.a_used = set()  # caller arrays handed directly to a tracked op
        self.alias_of_all = {}
        self.last_load = None
        self.checkpoints = []
        self.grad_read_errors = []
        self.failed_events = []  # id(ev) of statements that raised (expected or not)
        self.files = {}
        self._tmpdir = None
        for o in self.obs:
            o.attach(self)

    # ------------------------------------------------------------------ bookkeeping
    def read_grad(self, t, who=None):
        """t.grad, robust against the property itself raising (recorded, returned as None)"""
        try:
            return t.grad
        except Exception as e:
            self.grad_read_errors.append((self.nstep, who, type(e).__name__, str(e)[:160]))
            self.count("unexp.grad_read." + type(e).__name__)
            return None

    def count(self, k, n=1):
        self.stats[k] = self.stats.get(k, 0) + n

    def probe(self, k, n=1):
        self.probes[k] = self.probes.get(k, 0) + n

    def violation(self, prop, oracle, msg, tag=None):
        """records a violation; returns True when it is new and not a listed known finding (the
        run then stops).  Known findings are recorded once per tag and the run continues, so
        that a different violation later in the same history is still seen."""
        tag = tag or oracle
        if tag in self._seen_tags:
            return False
        self._seen_tags.add(tag)
        v = {"property": prop, "oracle": oracle, "msg": msg[:600], "tag": tag, "step": self.nstep}
        km = self.cfg.get("known_matcher")
        if km is not None and km(prop, tag):
            self.known_hits.append(v)
            return False
        self.violations.append(v)
        return True

    def h_update(self, *parts):
        for p in parts:
            if isinstance(p, np.ndarray):
                self.hash.update(str(p.dtype).encode())
                self.hash.update(str(p.shape).encode())
                self.hash.update(np.ascontiguousarray(p).tobytes())
            else:
                self.hash.update(repr(p).encode())
            self.hash.update(b"|")

    # ------------------------------------------------------------------ resolving refs
    def has(self, ref):
        if "t" in ref:
            return ref["t"] in self.T
        if "a" in ref:
            return ref["a"] in self.A
        return True

    def real(self, ref):
        if "t" in ref:
            return self.T[ref["t"]]
        if "a" in ref:
            return self.A[ref["a"]]
        if "c" in ref:
            return ref["c"]
        if "n" in ref:
            return dec_arr(ref["n"])
        if "l" in ref:
            return dec_arr(ref["l"]).tolist()  # a (nested) Python list
        raise KeyError(ref)

    def shadow(self, ref):
        if "t" in ref:
            return self.S[ref["t"]]
        if "a" in ref:
            return self.SA[ref["a"]]
        if "c" in ref:
            # MyGrad turns a Python scalar into a 0-d array (a constant tensor) before the kernel
            # sees it; whether that promotes like NumPy's weak scalars is C03's question, not ours
            return np.asarray(ref["c"])
        if "n" in ref:
            return dec_arr(ref["n"])
        if "l" in ref:
            return dec_arr(ref["l"])
        raise KeyError(ref)

    def nid_of(self, ref):
        if "t" in ref:
            return self.info[ref["t"]].nid
        v = self.shadow(ref)
        return self.tape.leaf(np.asarray(v, dtype=np.float64), True)

    def ref_const(self, ref):
        if "t" in ref:
            return self.info[ref["t"]].const
        return True

    # ------------------------------------------------------------------ judged (C04) status
    def judged04(self, h):
        """h belongs to a family every member of which was created in the current epoch, with
        tracking on, from MyGrad-owned memory (DESIGN C04)."""
        i = self.info.get(h)
        if i is None or i.foreign or i.stale:
            return False
        return i.born == self.clock and i.fam.born == self.clock

    # ------------------------------------------------------------------ step
    def step(self, ev):
        self.nstep += 1
        k = ev["k"]
        for o in self.obs:
            o.before(self, ev)
        gcp = ev.get("gcp")
        if gcp:
            env.PREEMPT.arm(gcp)
        if ev.get("kf"):
            env.FAULTER.arm()
        try:
            out = getattr(self, "ev_" + k)(ev)
        finally:
            if gcp:
                fired = env.PREEMPT.disarm()
                if fired:
                    self.count("fault.gc_preempt", len(fired))
                    for f in fired:
                        self.probe(f"preempt@{f[1]}")
                        if f[3]:
                            self.probe("preempt_collected_garbage")
                    self._after_gc()
            if ev.get("kf"):
                not_fired = not env.FAULTER.disarm()
                if not not_fired:
                    self.count("fault.kernel")
        if out is None:
            out = Outcome("ok")
        prop_exc = getattr(out, "propagate", None)
        self.trace.append((k, out.cls()))
        if out.status in ("fail", "unexp") and k != "write":
            self.failed_events.append(id(ev))
        self.count("ev." + k)
        self.count("out." + out.status)
        if out.status == "unexp":
            self.count("unexp." + str(out.exc))
        if self.need_discovery:
            self.discover()
        for o in self.obs:
            o.after(self, ev, out)
        self.h_update(k, out.cls(), self.tracking, self.guard)
        if prop_exc is not None:
            raise prop_exc
        return out

    def run(self, events):
        for ev in events:
            try:
                self.step(ev)
            except BodyRaise:
                pass  # (cannot happen: levels are capped to the enclosing depth)
            if self.violations and self.cfg.get("stop_on_violation", True):
                break
        if not self.violations or not self.cfg.get("stop_on_violation", True):
            self.finish()
        return self

    def finish(self):
        """quiescence (DESIGN 2.4): unwind scopes, drop every handle, one gc pass; observers check."""
        for o in self.obs:
            o.before_quiescence(self)
        while self.scope_stack:
            self._exit_scope(None)
        for hid in sorted(self.held, key=lambda k: -self.held[k]["seq"]):
            self._close_held(hid, False)
        held_arrays = dict(self.A)
        orig = dict(self.a_orig)
        entered = dict(self.a_entered)
        self.T.clear()
        self.S.clear()
        self.info.clear()
        self.parked.clear()
        gc.collect()
        self.oprecs = {k: r for k, r in self.oprecs.items() if r.ref() is not None}
        for o in self.obs:
            o.at_quiescence(self, held_arrays, orig, entered)
        held_arrays.clear()
        self.A.clear()
        self.SA.clear()
        if self._tmpdir is not None:
            import shutil

            shutil.rmtree(self._tmpdir, ignore_errors=True)
            self._tmpdir = None

    def digest(self):
        return self.hash.hexdigest()

    # ------------------------------------------------------------------ helpers
    def _skip(self, why=""):
        self.count("skip." + why)
        return Outcome("skip", msg=why)

    def _new_tinfo(self, h, t, const, nid, fam=None, ids=None, foreign=False, orig_w=True):
        if t.dtype.kind == "f" and t.dtype.itemsize < np.dtype(self.tol_dtype).itemsize:
            self.tol_dtype = t.dtype.type  # the coarsest float precision seen decides the tolerance
        i = TInfo()
        i.const = const
        i.nid = nid
        i.born = self.clock
        i.foreign = foreign
        i.ref = weakref.ref(t)
        i.orig_w = orig_w
        i.untracked_born = not self.tracking
        if fam is None:
            fam = Fam(nid, self.clock, t, t.shape)
            fam.members[h] = None
            ids = None
            b = t.base if self.tracking else None
            if b is not None and b.base is None and t.data.base is not None and b.data.size and np.shares_memory(b.data, t.data) and not any(b is x for x in self.T.values()):
                # a composite (multi_matmul) handed out a view of an internal result: that hidden
                # tensor owns the memory and is what .base of this tensor and of its views names
                fam.owner_ref = weakref.ref(b)
                fam.hidden_owner = True
            del b
        else:
            fam.members[h] = ids
        i.fam = fam
        i.ids = ids
        i.vh = [nid]
        i.entered = False
        self.info[h] = i
        return i

    def owner_ids(self, h):
        i = self.info[h]
        if i.ids is not None:
            return i.ids
        shp = i.fam.owner_shape
        return np.arange(int(np.prod(shp)) if len(shp) else 1, dtype=np.int64).reshape(shp)

    def _drop_T(self, h):
        i = self.info.pop(h, None)
        self.alias_of.pop(h, None)
        if i is not None:
            i.fam.members.pop(h, None)
        self.T.pop(h, None)
        self.S.pop(h, None)

    def expected_const(self, refs, forced, out_dtype):
        if forced is not None:
            return forced
        if not is_float(out_dtype):
            return True
        return all(self.ref_const(r) for r in refs)

    def _mark_entered(self, refs):
        if not (self.tracking and self.guard):
            return
        for r in refs:
            if "t" in r:
                i = self.info[r["t"]]
                if not i.entered:
                    i.entered = True
                    i.orig_w = self._orig_at_first_entry(self.T[r["t"]].data, i.orig_w)
            elif "a" in r:
                self._enter_array(r["a"])

    def _enter_array(self, ha):
        if self.a_entered.get(ha):
            return
        self.a_entered[ha] = True
        self.a_orig[ha] = self._orig_at_first_entry(self.A[ha], self.a_orig.get(ha))

    def _model_orig_of(self, arr):
        for ha, a in self.A.items():
            if a is arr:
                return self.a_orig.get(ha)
        for h, t in self.T.items():
            if t.data is arr:
                return self.info[h].orig_w
        return None

    def _orig_at_first_entry(self, arr, claim):
        """original writeable flag of an array at the moment it first enters a guarded op.
        True/False, or None when the model cannot know (then nothing is asserted about it)."""
        if arr.flags.writeable or claim is not True:
            return claim
        # claimed writeable but read-only right now
        owner = arr.base
        if owner is None:
            # locked already as the base of an entered view
            return True
        # a NumPy view that is read-only because it was taken while its owner was locked (whether
        # or not the owner has been released since): it counts as having its owner's original
        # flag (C08 quantifier) - MyGrad locks the owner first, then treats the view as lockable
        o = self._model_orig_of(owner)
        if o is None and owner.flags.writeable:
            o = True
        if owner.flags.writeable:
            self.probe("stale_readonly_view_entered")
        return o

    def _resync(self):
        """value-only resync of shadows that are not judged under C04 (DESIGN 3/C04)."""
        for ha, sa in self.SA.items():
            if sa.base is None:
                a = self.A[ha]
                if sa.shape == a.shape:
                    w = sa.flags.writeable
                    if not w:
                        sa.flags.writeable = True
                    np.copyto(sa, a, casting="unsafe")
                    if not w:
                        sa.flags.writeable = False
        by_id = {id(a): ha for ha, a in self.A.items()}
        for h, t in self.T.items():
            if not self.judged04(h):
                old = self.S.get(h)
                if id(t.data) in by_id:
                    self.S[h] = self.SA[by_id[id(t.data)]]  # the tensor's memory IS the caller's array
                    continue
                new = clone_layout(t.data)
                if old is not None and not old.flags.writeable and new.flags.writeable:
                    new.flags.writeable = False  # keep the native flag (e.g. broadcast views)
                self.S[h] = new

    # ------------------------------------------------------------------ creation events
    def ev_leaf(self, ev):
        h = ev["out"]
        if h in self.T:
            return self._skip("dup")
        data = dec_arr(ev["arr"])
        if ev.get("order") == "F":
            data = np.asfortranarray(data)
        c = ev.get("constant")
        fl = is_float(data.dtype)
        expect_fail = (not fl) and c is False and self.tracking
        try:
            if ev.get("via") == "Tensor":
                t = Tensor(np.array(data, copy=True, order="K"), constant=c)
            else:
                t = mg.tensor(np.array(data, copy=True, order="K"), constant=c)
        except Exception as e:
            st = "fail" if expect_fail else "unexp"
            return Outcome(st, type(e).__name__, str(e)[:200], expected_fail=expect_fail)
        if expect_fail:
            del t
            return Outcome("nofail")
        self.T[h] = t
        self.S[h] = np.array(data, copy=True, order="K")
        const = c if c is not None else (not fl)
        nid = self.tape.leaf(data, const)
        self._new_tinfo(h, t, const, nid)
        return Outcome("ok")

    CREATE_DT = {"f8": np.float64, "f4": np.float32, "f2": np.float16, "i8": np.int64, "i4": np.int32, "b1": np.bool_, "c16": np.complex128, "float": float, "int": int}

    def ev_create(self, ev):
        """a creation routine called with explicit arguments: same values, shape and dtype as the
        NumPy namesake (zeros/ones/empty default to float32 as documented), a detached tensor with
        the flag the rules give; non-real dtypes are refused exactly while tracking is on"""
        h, fn = ev["out"], ev["fn"]
        if h in self.T:
            return self._skip("dup")
        like = ev.get("like")
        if like is not None and not self.has(like):
            return self._skip("ref")
        kw = dict(ev.get("kw", {}))
        c = kw.pop("constant", None)
        if "dtype" in kw:
            kw["dtype"] = self.CREATE_DT[kw["dtype"]]
        if "shape" in kw and isinstance(kw["shape"], list):
            kw["shape"] = tuple(kw["shape"])
        args = [tuple(a["shape"]) if isinstance(a, dict) and "shape" in a else (dec_arr(a["n"]) if isinstance(a, dict) and "n" in a else a) for a in ev.get("pargs", [])]
        np_kw = dict(kw)
        if fn in ("zeros", "ones", "empty") and "dtype" not in np_kw:
            np_kw["dtype"] = np.float32  # the documented default
        try:
            if like is not None:
                ref = getattr(np, fn)(np.asarray(self.shadow(like)), *args, **np_kw)
            else:
                ref = getattr(np, fn)(*args, **np_kw)
            ref = np.asarray(ref)
        except Exception:
            return self._skip("shadow")
        real_dt = ref.dtype.kind in "fiub"
        fl = is_float(ref.dtype)
        expect_fail = self.tracking and ((not real_dt) or (c is False and not fl))
        mkw = dict(kw)
        if c is not None:
            mkw["constant"] = c
        try:
            if like is not None:
                t = getattr(mg, fn)(self.real(like), *args, **mkw)
            else:
                t = getattr(mg, fn)(*args, **mkw)
        except Exception as e:
            st = "fail" if expect_fail else "unexp"
            return Outcome(st, type(e).__name__, str(e)[:200], expected_fail=expect_fail)
        # the *_like routines infer the flag from their argument like any operation does: an array
        # (or list) is a constant, a tensor carries its own flag
        like_const = None if like is None else (bool(self.T[like["t"]].constant) if "t" in like else True)
        self.last_create = {"fn": fn, "ref": ref, "t": t, "constant": c, "like_const": like_const, "expect_fail": expect_fail, "values": fn not in ("empty", "empty_like")}
        if expect_fail:
            del t
            return Outcome("nofail")
        if not isinstance(t, Tensor) or not real_dt or t.data.shape != ref.shape or t.data.dtype != ref.dtype or fn in ("empty", "empty_like"):
            # judged by the oracle; nothing to register (and the uninitialised memory of empty()
            # must never enter the history: it is not a function of the seed)
            del t
            return Outcome("ok")
        self.T[h] = t
        self.S[h] = np.array(ref, copy=True)
        const = bool(t.constant)
        nid = self.tape.leaf(np.asarray(self.S[h], dtype=np.float64), const)
        i = self._new_tinfo(h, t, const, nid)
        i.made_by = "create:" + fn
        del t
        return Outcome("ok")

    def ev_arr(self, ev):
        ha = ev["out"]
        if ha in self.A:
            return self._skip("dup")
        a = dec_arr(ev["arr"]).copy()
        if ev.get("order") == "F":
            a = np.asfortranarray(a)
        sa = a.copy(order="K")
        if ev.get("ro"):
            a.flags.writeable = False
            sa.flags.writeable = False
        self.A[ha] = a
        self.SA[ha] = sa
        self.a_orig[ha] = not ev.get("ro")
        self.a_entered[ha] = False
        self.a_kind[ha] = "own"
        self.a_origin[ha] = "caller"
        return Outcome("ok")

    def ev_aview(self, ev):
        ha, src = ev["out"], ev["src"]
        if ha in self.A or src not in self.A:
            return self._skip("ref")
        ix = dec_index(ev["index"])
        try:
            sv = self.SA[src][ix]
        except Exception:
            return self._skip("shadow")
        if not isinstance(sv, np.ndarray) or sv.base is None:
            return self._skip("notview")
        v = self.A[src][ix]
        self.A[ha] = v
        self.SA[ha] = sv
        self.a_orig[ha] = self.a_orig[src]
        self.a_entered[ha] = False
        self.a_kind[ha] = "view"
        self.a_origin[ha] = self.a_origin.get(src, "caller")
        self.a_born_ro[ha] = not v.flags.writeable
        if ev.get("ro") and v.flags.writeable:
            # the caller marks its fresh view read-only: a natively read-only VIEW of writeable memory
            v.flags.writeable = False
            sv.flags.writeable = False
            self.a_orig[ha] = False
            self.a_kind[ha] = "ro_view"
            self.a_origin[ha] = "caller_ro_view"
            self.a_born_ro[ha] = False
        return Outcome("ok")

    def ev_wrap(self, ev):
        """tensor from a caller array: how in tensor_copy | tensor_nocopy | astensor | Tensor | Tensor_nocopy"""
        h, src, how = ev["out"], ev["src"], ev["how"]
        if h in self.T or src not in self.A:
            return self._skip("ref")
        a = self.A[src]
        c = ev.get("constant")
        npdt = dt(ev["dtype"]) if ev.get("dtype") else None
        fl = is_float(npdt if npdt is not None else a.dtype)
        expect_fail = (not fl) and c is False and self.tracking
        kw = {} if npdt is None else {"dtype": npdt}
        ndmin = int(ev.get("ndmin", 0) or 0)
        if ndmin and how != "astensor":
            kw["ndmin"] = ndmin
        try:
            if how == "tensor_copy":
                t = mg.tensor(a, constant=c, **kw)
            elif how == "tensor_nocopy":
                t = mg.tensor(a, constant=c, copy=False, **kw)
            elif how == "astensor":
                t = mg.astensor(a, constant=c, **kw)
            elif how == "Tensor":
                t = Tensor(a, constant=c, **kw)
            elif how == "Tensor_nocopy":
                t = Tensor(a, constant=c, copy=False, **kw)
            else:
                return self._skip("how")
        except Exception as e:
            st = "fail" if expect_fail else "unexp"
            return Outcome(st, type(e).__name__, str(e)[:200], expected_fail=expect_fail)
        if expect_fail:
            del t
            return Outcome("nofail")
        shares = how in ("tensor_nocopy", "astensor", "Tensor_nocopy") and (npdt is None or npdt == a.dtype)
        self.last_conv = {"src_a": src, "how": how, "expect_shares": shares, "shares": bool(t.data.size and np.shares_memory(t.data, a)), "is_same_array": t.data is a, "out": h}
        self.T[h] = t
        if shares:
            sh = self.SA[src]
            extra = t.data.ndim - sh.ndim
            self.S[h] = sh[(None,) * extra] if extra > 0 else sh  # ndmin prepends axes: a view of the same memory
        else:
            self.S[h] = np.array(self.SA[src], dtype=t.dtype, copy=True, ndmin=t.data.ndim)
        const = c if c is not None else (not fl)
        nid = self.tape.leaf(np.asarray(t.data, dtype=np.float64), const)
        i = self._new_tinfo(h, t, const, nid, foreign=True, orig_w=(self.a_orig[src] if shares else True))
        i.entered = self.a_entered[src] if shares else False
        i.made_by = self.a_origin.get(src, "caller") if shares else "leaf"
        return Outcome("ok")

    def ev_grab(self, ev):
        """the caller takes t.data / t.grad / np.asarray(t) into an array handle"""
        ha, src, what = ev["out"], ev["src"], ev["what"]
        if ha in self.A or src not in self.T:
            return self._skip("ref")
        t = self.T[src]
        if what == "data":
            a = t.data
            self.a_orig[ha] = self.info[src].orig_w
            self.a_entered[ha] = self.info[src].entered
        elif what == "grad":
            a = self.read_grad(t, src)
            if a is None:
                return self._skip("nograd")
            self.a_orig[ha] = True
            self.a_entered[ha] = False
        else:
            a = np.asarray(t)
            self.a_orig[ha] = self.info[src].orig_w
            self.a_entered[ha] = self.info[src].entered
        self.A[ha] = a
        self.SA[ha] = self.S[src] if (what != "grad" and a is t.data) else np.array(a, copy=True)
        self.a_kind[ha] = what
        self.a_origin[ha] = "grad" if what == "grad" else self.info[src].made_by
        return Outcome("ok")

    # ------------------------------------------------------------------ pure / view ops
    def ev_op(self, ev):
        h = ev["out"]
        refs = ev["args"]
        if h in self.T or not all(self.has(r) for r in refs):
            return self._skip("ref")
        od = OPS[ev["op"]]
        p = ev.get("p", {})
        forced = ev.get("constant")
        out_arr = ev.get("out_arr")  # out=<caller ndarray>
        if out_arr is not None and out_arr not in self.A:
            return self._skip("ref")
        sargs = [self.shadow(r) for r in refs]
        try:
            if out_arr is None:
                sout = od.np(sargs, p)
            else:
                so = self.SA[out_arr]
                tmp = od.np(sargs, p)
                if tmp.shape != so.shape or not so.flags.writeable:
                    raise ValueError("shadow: bad out")
                sout = None
            s_ok = True
        except Exception:
            s_ok = False
        if not s_ok and not ev.get("fail"):
            return self._skip("shadow")
        expect_fail = (not s_ok) or bool(ev.get("kf"))
        if s_ok and out_arr is None:
            sout = np.asarray(sout)
            if any(sout is x for x in sargs):
                # NumPy handed back the operand array itself (squeeze with nothing to squeeze): the
                # result is a distinct tensor on MyGrad's side, so the shadow is a distinct view too
                # (otherwise `.shape = ...` on one shadow would silently reshape the other)
                sout = sout.view()
            if forced is False and not is_float(sout.dtype) and self.tracking:
                expect_fail = True
        rargs = [self.real(r) for r in refs]
        if self.tracking:
            for r in refs:
                if "a" in r:
                    self.a_used.add(r["a"])
        spell = ev.get("spell", "f")
        if spell not in od.spellings:
            spell = "f" if "f" in od.spellings else od.spellings[0]
        if spell in ("n", "o", "m") and not isinstance(rargs[0], Tensor) and spell == "m":
            spell = "f" if "f" in od.spellings else od.spellings[0]
        if spell in ("n", "o") and not any(isinstance(x, Tensor) for x in rargs):
            spell = "f" if "f" in od.spellings else od.spellings[0]
        kw = {}
        if forced is not None:
            kw["constant"] = forced
        if out_arr is not None:
            kw["out"] = (self.A[out_arr],) if ev.get("out_tuple") else self.A[out_arr]
            # is the target writeable for NumPy right now?
            if not self.A[out_arr].flags.writeable:
                expect_fail = True
            elif self.tracking and self.guard:
                # MyGrad locks the inputs (and their bases) before the kernel runs: an out= target
                # that is one of them (or a view / the base of one) is read-only by then
                oa = self.A[out_arr]
                for x in rargs:
                    xd = x.data if isinstance(x, Tensor) else x
                    if isinstance(xd, np.ndarray) and xd.size and oa.size and np.shares_memory(xd, oa):
                        expect_fail = "either"
        self._mark_entered([r for k, r in enumerate(refs) if k not in getattr(od, "unlocked_args", ())])
        try:
            t = od.mg(mg, spell, rargs, p, kw)
        except Exception as e:
            st = "fail" if expect_fail else "unexp"
            out = Outcome(st, type(e).__name__, str(e)[:200], expected_fail=expect_fail, fault=("kernel" if ev.get("kf") else "natural"))
            del rargs, kw
            return out
        same = any(t is x for x in rargs)
        del rargs, kw
        if same:
            # the operand itself came back (atleast_kd of a tensor that already has k dimensions,
            # as in NumPy): no new tensor to track
            del t
            return self._skip("identity")
        if od.name == "getitem" and isinstance(t, Tensor):
            self._check_index_untouched(t, p.get("index"))
        if not isinstance(t, Tensor):
            del t
            return Outcome("unexp", "NotATensor", "result is not a Tensor")
        if expect_fail and expect_fail != "either":
            # the model expected a failure but MyGrad accepted the statement: not judged here
            # (C03 territory); the result is dropped
            del t
            return Outcome("nofail")
        if getattr(od, "assoc_free", False) and out_arr is None and sout.shape == t.data.shape and sout.dtype == t.data.dtype:
            # same mathematical value, another order of floating-point operations: adopt MyGrad's
            # bits when they agree up to rounding (forward parity is not what any claimed property asks)
            eps = np.finfo(sout.dtype).eps if sout.dtype.kind == "f" else 0
            scale = max(float(np.max(np.abs(sout))) if sout.size else 0.0, 1.0)
            if sout.dtype.kind == "f" and np.allclose(t.data, sout, rtol=256 * eps, atol=256 * eps * scale * 8, equal_nan=True):
                sout = np.array(t.data, copy=True)
        self.T[h] = t
        if out_arr is not None and self.tracking and self.guard:
            self._enter_array(out_arr)
        if out_arr is not None:
            # physical write into the caller's array
            so = self.SA[out_arr]
            np.copyto(so, od.np(sargs, p), casting="unsafe")
            sout = so
        self.S[h] = sout
        const = self.expected_const(refs, forced, sout.dtype)
        # tape
        nids = [self.nid_of(r) for r in refs]
        try:
            nid = od.tape(self.tape, nids, p, const, None)
            if not self.tape.nodes[nid].opaque:
                self.tape.set_val(nid, sout)
        except Exception as e:  # tape cannot model this statement: opaque
            nid = self.tape.opaque(np.asarray(sout, dtype=np.float64), nids, const)
            self.count("tape.opaque")
        # family
        fam, ids = None, None
        src_h = refs[0].get("t") if refs else None
        foreign = out_arr is not None
        orig_w = bool(sout.flags.writeable) if out_arr is None else self.a_orig[out_arr]
        same_obj = bool(self.tracking and od.view_capable and src_h is not None and t.data is self.T[src_h].data and t.base is None)
        if same_obj:
            # NumPy handed back the operand array itself (squeeze with nothing to squeeze) and MyGrad
            # did not register the result as a view: two tensors around one array that do not know
            # of each other.  Listed finding; from here on the model follows MyGrad.
            self.violation("C04", "C04.base", f"step {self.nstep} (op:{od.name}): handle {h} wraps the very array of handle {src_h} but .base is None", tag=f"C04.base/view_wrong_base/op:{od.name}/same_array_object")
            foreign = True
            for ki in self.info.values():
                ki.foreign = True  # the consequences (values, sharing, gradients) are not judged again in this run
            self.grad_poisoned = True
        if self.tracking and od.view_capable and (od.rearrange or (od.name == "einsum" and len(refs) == 1)) and src_h is not None and not same_obj:
            ssrc = self.S[src_h]
            # NumPy says the result is a view of the operand (the same test MyGrad applies to the
            # real arrays; np.shares_memory cannot tell for empty results)
            if sout.base is not None and (sout.base is ssrc or sout.base is ssrc.base or (ssrc.base is None and False)) or (sout.size > 0 and np.shares_memory(sout, ssrc)):
                si = self.info[src_h]
                fam = si.fam
                ids = od.ids(self.owner_ids(src_h), p)
                if si.foreign:
                    foreign = True
        if od.name == "einsum" and self.tracking and sout.size > 0 and fam is None:
            # multi-operand einsum never returns a view of an operand; be safe if NumPy ever does
            for r in refs:
                if "t" in r and np.shares_memory(sout, self.S[r["t"]]):
                    foreign = True
        if any(("t" in r and (self.info[r["t"]].foreign)) for r in refs) and fam is not None:
            foreign = True
        if sout.size == 0:
            foreign = True  # memory sharing of empty arrays is undefined: never judged under C04
        i = self._new_tinfo(h, t, const, nid, fam=fam, ids=ids, foreign=foreign, orig_w=orig_w)
        if fam is not None:
            # original flag of a view: the owner's (DESIGN C08) unless natively read-only (broadcast)
            i.orig_w = bool(sout.flags.writeable) and self.info[src_h].orig_w
        i.entered = bool(self.tracking and self.guard)
        i.made_by = od.name
        if fam is not None and src_h is not None:
            si = self.info[src_h]
            i.chain_const = si.chain_const or (si.ids is not None and si.const)
        if src_h is not None and self.info[src_h].orig_w is False and sout.size and np.shares_memory(sout, self.S[src_h]):
            i.made_by = self.info[src_h].made_by  # a view of a natively read-only array: same root cause
            i.orig_w = False
        if not self.tracking:
            # physically a view but unknown to MyGrad: excluded from C04 judgement
            if od.view_capable and src_h is not None and sout.size > 0 and np.shares_memory(sout, self.S[src_h]):
                i.foreign = True
                self.info[src_h].foreign = True
        self.h_update(np.asarray(t.data), t.constant)
        return Outcome("ok")

    # ------------------------------------------------------------------ in-place
    def ev_inplace(self, ev):
        h = ev["tgt"]
        refs = ev.get("args", [])
        if h not in self.T or not all(self.has(r) for r in refs):
            return self._skip("ref")
        form = ev["form"]
        t = self.T[h]
        st = self.S[h]
        info = self.info[h]
        # ---- shadow first, on a scratch copy of the whole judged world would be expensive; instead
        # run the statement on a copy of the target shadow to learn whether NumPy accepts it
        sargs = [self.shadow(r) for r in refs]
        mask = dec_arr(ev["where"]) if ev.get("where") is not None else None
        idx = dec_index(ev["index"]) if "index" in ev else None

        def apply_np(target):
            if form == "setitem":
                # (the value is read before anything is written: with an advanced index NumPy itself
                # is order-dependent when the value is a view of the target)
                target[idx] = np.array(sargs[0], copy=True)
            elif form in ("iadd", "isub", "imul", "idiv", "ipow"):
                f = {"iadd": np.add, "isub": np.subtract, "imul": np.multiply, "idiv": np.divide, "ipow": np.power}[form]
                f(target, sargs[0], out=target)
            elif form == "ufunc":
                f = NP_UFUNC[ev["op"]]
                if mask is None:
                    f(*sargs, out=target)
                else:
                    f(*sargs, out=target, where=mask)
            else:
                raise ValueError(form)

        try:
            probe = np.array(st, copy=True)
            apply_np(probe)
            s_ok = True
            if not st.flags.writeable:
                s_ok = False  # NumPy would refuse a natively read-only target
        except Exception:
            s_ok = False
        if not s_ok and not ev.get("fail"):
            return self._skip("shadow")
        expect_fail = (not s_ok) or bool(ev.get("kf"))
        if not self.tracking and not t.data.flags.writeable:
            expect_fail = True  # natural failure: locked / read-only memory written outside the graph
        elif self.tracking and not t.data.flags.writeable and not expect_fail:
            if info.entered:
                if info.orig_w is False:
                    expect_fail = True  # natively read-only in-place target
                elif info.orig_w is None:
                    expect_fail = "either"
            else:
                # read-only memory MyGrad does not itself track (stale view, or an untracked alias
                # of locked memory): MyGrad may refuse where NumPy would not
                o = self._orig_at_first_entry(t.data, info.orig_w)
                expect_fail = True if o is False else "either"
        phys_before = None
        if not self.tracking:
            phys_before = [k for k, tt in self.T.items() if k != h and tt.data.size and np.shares_memory(tt.data, t.data)]
        rargs = [self.real(r) for r in refs]
        if not self.tracking:
            pass
        try:
            if form == "setitem":
                t[idx] = rargs[0]
                ret = t
            elif form in ("iadd", "isub", "imul", "idiv", "ipow"):
                ret = getattr(operator, "itruediv" if form == "idiv" else form)(t, rargs[0])
            else:
                name = UFUNC_OUT[ev["op"]]
                kw = {"out": (t,) if ev.get("out_tuple") else t}  # NumPy's out=(x,) spelling
                if mask is not None:
                    kw["where"] = mask
                if ev.get("spell") == "n":
                    ret = NP_UFUNC[ev["op"]](*rargs, **kw)
                else:
                    ret = getattr(mg, name)(*rargs, **kw)
                del kw
        except Exception as e:
            stt = "fail" if expect_fail else "unexp"
            out = Outcome(stt, type(e).__name__, str(e)[:200], expected_fail=bool(expect_fail), fault=("kernel" if ev.get("kf") else "natural"))
            del rargs, t
            return out
        del rargs
        same_obj = ret is t
        del ret
        if form == "setitem" and idx is not None:
            want = dec_index(ev["index"])
            wt = want if isinstance(want, tuple) else (want,)
            it = idx if isinstance(idx, tuple) else (idx,)
            for a, b in zip(wt, it):
                if isinstance(a, np.ndarray) and (a.shape != b.shape or not np.array_equal(a, b)):
                    self.index_modified = True
        if expect_fail and expect_fail != "either":
            # the statement was applied although the model expected NumPy-level rejection:
            # bring the models along (value-only) and report the outcome class
            del t
            self._after_untracked_write(h) if not self.tracking else self._retape_all_from_reality(h)
            self._resync()
            return Outcome("nofail")
        if not same_obj:
            self.violation("C04", "C04.identity", f"in-place {form} on handle {h} returned a different object")
        if len(info.fam.members) > 1:
            self.probe("c04.inplace_on_family")
        # operands of an in-place statement are locked only once it succeeded (the kernel runs
        # under MyGrad's internal mem_guard_off and is force-locked afterwards)
        self._mark_entered(refs)
        # ---- M1
        if self.tracking:
            # a tracked update gives the tensor new memory; arrays the caller took from it before
            # (t.data, np.asarray(t)) keep the old memory and the old values
            for ha, sa in list(self.SA.items()):
                if sa is st:
                    self.SA[ha] = np.array(st, copy=True)
        apply_np(st)
        self.last_inplace = {"tgt": h, "same_object": True, "value_ok": None}
        if not self.tracking:
            d = self.T[h].data
            self.last_inplace["value_ok"] = bool(d.shape == st.shape and d.dtype == st.dtype and np.array_equal(d, st, equal_nan=True))
        # ---- M2
        if self.tracking:
            self._tape_inplace(h, ev, refs, idx, mask)
            # data arrays were replaced
            for k in list(info.fam.members):
                if k in self.info:
                    self.info[k].entered = bool(self.guard)
        else:
            self._after_untracked_write(h, phys_before)
            # a write through memory MyGrad does not know to be shared (a view made with tracking
            # off): tensors that physically saw it but whose shadows are separate arrays follow
            # the real values from now on instead of being judged against NumPy statements
            for k in phys_before or []:
                if k in self.S and k in self.info and not (self.S[k].size and st.size and np.shares_memory(self.S[k], st)):
                    self.info[k].foreign = True
        del t
        if self.tracking:
            self._same_array_check(list(info.fam.members), f"inplace:{form}")
        self._resync()
        self.h_update(np.asarray(self.T[h].data))
        if self.tracking and self._own_ancestor(self.T[h]):
            self.graph_cycle_seen = True
            self.probe("graph_cycle_created_by_inplace")
        return Outcome("ok")

    def _same_array_check(self, hs, evt):
        """after MyGrad re-created a family: a member whose replayed view op handed back the base's
        array itself (squeeze with nothing to squeeze) must still be a view of the base.  It used to
        read .base None (repaired in /repo by fix 18, 4c0cae8; DESIGN 8.4): the tag .../inplace:<form>/
        same_array_object is no longer a listed finding, so this is reported as a violation"""
        for k in hs:
            t = self.T.get(k)
            if t is None or t.base is not None or not t.data.size:
                continue
            # (an owner whose array is also wrapped by a registered view of it - x.base is t - is
            # the consistent state: only a second wrapper that does not name t as its base counts)
            if any(x is not t and x.data is t.data and x.base is not t for x in self.T.values()):
                self.violation("C04", "C04.base", f"step {self.nstep} ({evt}): handle {k} wraps the very array of another tensor but .base is None", tag=f"C04.base/view_wrong_base/{evt}/same_array_object")
                for ki in self.info.values():
                    ki.foreign = True
                self.grad_poisoned = True
                return True
        return False

    @staticmethod
    def _own_ancestor(t0, limit=400):
        """is the tensor upstream of itself (public creator/variables walk)?"""
        seen = set()
        stack = []
        c = t0.creator
        if c is None:
            return False
        stack.extend(c.variables)
        n = 0
        while stack and n < limit:
            x = stack.pop()
            n += 1
            if x is t0:
                return True
            if id(x) in seen:
                continue
            seen.add(id(x))
            c = x.creator
            if c is not None:
                stack.extend(c.variables)
        return False

    def _check_index_untouched(self, t, enc):
        """C12: the index object handed to MyGrad (kept by the recorded op) still holds what the
        caller put into it"""
        if enc is None:
            return
        c = t.creator
        kept = getattr(c, "index", None) if c is not None else None
        if kept is None:
            return
        want = dec_index(enc)
        want = want if isinstance(want, tuple) else (want,)
        kept = kept if isinstance(kept, tuple) else (kept,)
        for a, b in zip(want, kept):
            if isinstance(a, np.ndarray) and isinstance(b, np.ndarray):
                if a.shape != b.shape or not np.array_equal(a, b):
                    self.index_modified = True

    def _tape_inplace(self, h, ev, refs, idx, mask):
        tp = self.tape
        info = self.info[h]
        fam = info.fam
        old = info.nid
        form = ev["form"]
        nids = [self.nid_of(r) for r in refs]
        # the mutation is a mutation of the family's memory: whether it transmits gradient is
        # decided by the owner's flag (the public flags of all members are unchanged)
        const = tp.nodes[fam.owner_nid].const
        try:
            if form == "setitem":
                new = tp.apply("setitem", [old, nids[0]], {"index": idx}, const)
            elif form in ("iadd", "isub", "imul", "idiv", "ipow"):
                fn = {"iadd": "add", "isub": "sub", "imul": "mul", "idiv": "div", "ipow": "power"}[form]
                new = tp.apply("ew2", [old, nids[0]], {"fn": fn}, const)
                new = self._fit(new, old, const)
            else:
                od = OPS[ev["op"]]
                new = od.tape(tp, nids, {}, const, None)
                new = self._fit(new, old, const)
                if mask is not None:
                    new = tp.apply("maskmerge", [new, old], {"mask": mask}, const)
            tp.set_val(new, self.S[h])
        except Exception:
            new = tp.opaque(np.asarray(self.S[h], dtype=np.float64), [old] + nids, const)
            self.count("tape.opaque")
        self._install_version(h, new)

    def _fit(self, new, old, const):
        """out= targets receive the result broadcast to the target's shape"""
        tp = self.tape
        so, sn = tp.val(old).shape, tp.val(new).shape
        if so != sn:
            new = tp.apply("bcast", [new], {"shape": so}, const)
        return new

    def _install_version(self, h, new):
        """member h of its family got functional value `new`: scatter into the owner, re-gather all"""
        tp = self.tape
        info = self.info[h]
        fam = info.fam
        if info.ids is None and getattr(fam, "hidden_owner", False):
            # the "owner" is itself a view of a hidden tensor (multi_matmul with a 1-D end operand):
            # MyGrad treats the update as an update of a view, so the old version stays in the
            # graph (and whatever fed it receives a zero gradient rather than none)
            n_el = int(np.prod(fam.owner_shape)) if len(fam.owner_shape) else 1
            owner_new = tp.apply("scatter", [fam.owner_nid, new], {"ids": np.arange(n_el, dtype=np.int64).reshape(fam.owner_shape)}, tp.nodes[fam.owner_nid].const)
        elif info.ids is None:
            owner_new = new
        else:
            owner_const = tp.nodes[fam.owner_nid].const
            owner_new = tp.apply("scatter", [fam.owner_nid, new], {"ids": info.ids}, owner_const)
        fam.owner_nid = owner_new
        for k, ids in fam.members.items():
            ki = self.info[k]
            if ids is None:
                ki.nid = owner_new
            elif ki.chain_const:
                # re-created through a constant view: MyGrad's replayed chain cuts the gradient there
                ki.nid = tp.leaf(tp.val(owner_new).reshape(-1)[ids], ki.const)
            else:
                ki.nid = tp.apply("gather", [owner_new], {"ids": ids}, ki.const)
            ki.vh.append(ki.nid)

    def _after_untracked_write(self, h, phys=None):
        """memory was written outside the graph: every handle that physically shares it is re-leafed"""
        hs = [h] + list(phys or [])
        for k in hs:
            if k not in self.T:
                continue
            ki = self.info[k]
            n = self.tape.nodes[ki.nid]
            if n.kind != "leaf":
                self.grad_poisoned = True
            ki.nid = self.tape.leaf(np.asarray(self.T[k].data, dtype=np.float64), ki.const)
            ki.vh.append(ki.nid)
            if ki.ids is None:
                ki.fam.owner_nid = ki.nid
            else:
                self.grad_poisoned = True

    def _retape_all_from_reality(self, h):
        self.grad_poisoned = True
        for k in list(self.info[h].fam.members):
            if k in self.T:
                ki = self.info[k]
                ki.nid = self.tape.leaf(np.asarray(self.T[k].data, dtype=np.float64), ki.const)
                ki.vh.append(ki.nid)

    def ev_setshape(self, ev):
        h = ev["tgt"]
        if h not in self.T:
            return self._skip("ref")
        shape = tuple(ev["shape"])
        st = self.S[h]
        t = self.T[h]
        info = self.info[h]
        try:
            probe = st.view()
            probe.shape = shape
            s_ok = True
        except Exception:
            s_ok = False
        if not s_ok and not ev.get("fail"):
            return self._skip("shadow")
        try:
            t.shape = shape
        except Exception as e:
            stt = "fail" if not s_ok else "unexp"
            del t
            return Outcome(stt, type(e).__name__, str(e)[:200], expected_fail=not s_ok, fault="natural")
        del t
        if not s_ok:
            self._resync()
            return Outcome("nofail")
        if tuple(st.shape) == shape:
            return Outcome("ok")
        st.shape = shape
        # M2: the handle's own value is reshaped; relation to the family is unchanged in memory
        if self.tracking or True:
            tp = self.tape
            oids = self.owner_ids(h).reshape(shape)
            if info.ids is None:
                # owner reshaped: members keep their flat positions
                info.fam.owner_shape = shape
                new = tp.apply("gather", [info.nid], {"ids": np.arange(oids.size).reshape(shape)}, info.const)
                # the reshaped owner is a new version holding the same flat values
                info.fam.owner_nid = new
                info.nid = new
                info.vh.append(new)
                for k, ids in info.fam.members.items():
                    if ids is not None:
                        ki = self.info[k]
                        ki.nid = tp.apply("gather", [new], {"ids": ids}, ki.const)
                        ki.vh.append(ki.nid)
            else:
                info.ids = oids
                info.fam.members[h] = oids
                info.nid = tp.apply("gather", [info.fam.owner_nid], {"ids": oids}, info.const)
                info.vh.append(info.nid)
        self._resync()
        return Outcome("ok")

    # ------------------------------------------------------------------ graph events
    def upstream_handles(self, h):
        """handles whose current version is upstream of handle h's current version (M2)"""
        up = self.tape.upstream(self.info[h].nid, stop_at_severed=True, through_const=True)
        return [k for k, i in self.info.items() if i.nid in up]

    def ev_backward(self, ev):
        h = ev["tgt"]
        if h not in self.T:
            return self._skip("ref")
        seed_ref = ev.get("seed")
        if seed_ref is not None and not self.has(seed_ref):
            return self._skip("ref")
        t = self.T[h]
        info = self.info[h]
        seed = None
        sseed = None
        expect_fail = False
        if seed_ref is not None:
            seed = self.real(seed_ref)
            sseed = np.asarray(self.shadow(seed_ref))
            try:
                b = np.broadcast_shapes(sseed.shape, t.shape)
                if b != tuple(t.shape):
                    expect_fail = True
            except ValueError:
                expect_fail = True
        if not ev.get("fail") and expect_fail:
            return self._skip("badseed")
        live = self.tracking
        rec = {
            "h": h,
            "seed": None if sseed is None else np.array(sseed, dtype=np.float64),
            "nid": info.nid,
            "tracking": live,
            "const": info.const,
            "status": None,
            "pre_grads": {},
            "pre_ids": {k for k, i in self.info.items() if i.ids is not None},
            "pre_severed": {k for k, i in self.info.items() if self.tape.nodes[i.nid].severed},
            "pre_member_ids": {k: i.ids for k, i in self.info.items() if i.ids is not None and not i.foreign and not i.stale},
        }
        for k, tt in self.T.items():
            g = self.read_grad(tt, k)
            if g is None:
                rec["pre_grads"][k] = None
            else:
                ga = np.asarray(g)
                rec["pre_grads"][k] = (weakref.ref(g) if isinstance(g, np.ndarray) else None, ga.tobytes(), ga.dtype.str, ga.shape)
                del ga
            del g
        self.last_backward = rec
        had_creator = {k for k, tt in self.T.items() if tt.creator is not None}
        if live and self.use_tape and not info.const:
            try:
                self._expect_grads(rec)
            except HarnessError:
                raise
            except Exception as e:  # the model could not produce an expectation: nothing is judged
                rec["expected"] = None
                rec["model_error"] = f"{type(e).__name__}: {e}"
                self.count("tape.model_error")
        try:
            if seed is None:
                t.backward()
            else:
                t.backward(seed)
        except Exception as e:
            name = type(e).__name__
            rec["status"] = "raised:" + name
            st = "fail" if (expect_fail or name == "InvalidBackprop") else "unexp"
            del t, seed
            if name == "InvalidBackprop":
                self.probe("InvalidBackprop")
            # an aborted backward pass leaves partially written gradients and an uncleared graph
            # behind ("clear all computational graphs and restart"): later crashes are not judged
            self.aborted_backward = True
            return Outcome(st, name, str(e)[:300], expected_fail=expect_fail, fault="natural")
        del t, seed
        if expect_fail:
            rec["status"] = "nofail"
            return Outcome("nofail")
        rec["status"] = "ok"
        if self.cfg.get("checkpoints"):
            self._checkpoint(rec)
        if live:
            self._model_clear(h)
            self._clear_leak_check(had_creator)
        return Outcome("ok")

    def _model_clear(self, h):
        """clear_graph from handle h: every upstream version is severed, families of cleared owners
        dissolve (DESIGN section 1/3)."""
        self.clock += 1
        self.tape.clock = self.clock
        sev = self.tape.sever_upstream(self.info[h].nid)
        rec = self.last_backward
        if rec is not None and rec.get("h") == h:
            rec["severed"] = sev
        fams = {}
        for k, i in self.info.items():
            fams.setdefault(id(i.fam), (i.fam, []))[1].append(k)
        for _, (fam, hs) in fams.items():
            if fam.owner_nid in sev:
                # dissolve: every member becomes its own owner; physical sharing remains
                if len(fam.members) > 1 or any(self.info[k].ids is not None for k in hs):
                    for k in hs:
                        ki = self.info[k]
                        nf = Fam(ki.nid, -1, self.T[k], self.T[k].shape)  # born=-1: never epoch-pure
                        nf.members[k] = None
                        ki.fam = nf
                        ki.ids = None
                        ki.stale = True
                else:
                    for k in hs:
                        self.info[k].stale = True
        for k, i in self.info.items():
            if i.nid in sev:
                i.stale = True

    def _clear_leak_check(self, had_creator):
        """the real clear reached a tensor that the recorded graph (as the functional model has it)
        does not contain: the C09 root cause (an op recorded before a clear still points at the
        public tensor that was later updated in place, so clearing walks on through the tensor's
        NEW creator).  Seen through the public `creator` attribute only.  The families of such
        tensors are half-forgotten from now on (their base no longer lists its views)."""
        for k, t in self.T.items():
            i = self.info[k]
            if k in had_creator and t.creator is None and not self.tape.nodes[i.nid].severed:
                self.probe("c09.clear_reached_outside_recorded_graph")
                self.clear_leak_seen = True
                fam = i.fam
                for m in list(fam.members):
                    if m in self.info:
                        mi = self.info[m]
                        nf = Fam(mi.nid, -1, self.T[m], self.T[m].shape)
                        nf.members[m] = None
                        mi.fam = nf
                        mi.ids = None
                        mi.stale = True

    def _checkpoint(self, rec):
        cp = {}
        for k, t in self.T.items():
            g = self.read_grad(t, k)
            ga = None if g is None else np.asarray(g)
            i = self.info[k]
            leftover = bool((i.stale or i.fam.born == -1) and t.base is not None)  # view left over from a cleared family
            cp[k] = (t.data.tobytes(), str(t.dtype), t.shape, None if ga is None else (ga.tobytes(), str(ga.dtype), ga.shape), bool(t.constant), leftover)
            del g
        self.checkpoints.append({"step": self.nstep, "tgt": rec["h"], "state": cp, "reach": set(rec.get("reach_handles") or []), "judged": rec.get("expected") is not None and not rec.get("tainted")})

    def _expect_grads(self, rec):
        """M2 expectation for every caller-held handle, computed on the state before the call:
        rec["expected"][k] = ("none",) | ("keep",) | ("val", array)  (DESIGN 3/C01,C05,C06)"""
        tp = self.tape
        root = rec["nid"]
        rec["tainted"] = tp.tainted(root)
        rec["layers"] = sorted({(tp.nodes[i].params or {}).get("layer", "?") for i in tp.upstream(root) if tp.nodes[i].opaque})
        cot, inf = tp.backward(root, rec["seed"])
        if self.cfg.get("fd_sample") and not inf["nondiff"] and not inf["opaque"] and np.dtype(self.tol_dtype) == np.float64:
            probs = tp.check_against_fd(root)
            self.count("tape.fd_checked")
            if probs:
                raise HarnessError(f"tape VJP disagrees with finite differences: {probs[:3]}")
        rec["nondiff"] = inf["nondiff"]
        rec["opaque"] = inf["opaque"]
        if inf["opaque"]:
            # the tape has no rule for something in this graph: nothing is judged
            rec["expected"] = None
            self.count("tape.opaque_backward")
            return
        reach = tp.upstream(root)
        exp = {}
        scale = 1.0
        for v in cot.values():
            if v.size:
                m = float(np.max(np.abs(v)))
                if np.isfinite(m) and m > scale:
                    scale = m
        rec["scale"] = scale * max(1.0, tp.vmax)
        for k, i in self.info.items():
            if i.const:
                exp[k] = ("none",)
                continue
            fam = i.fam
            if i.chain_const:
                continue  # a non-constant view reached through a constant view: no statement says what its gradient is
            if i.ids is None:
                if i.nid in reach:
                    g = cot.get(i.nid)
                    exp[k] = ("val", g) if g is not None else ("none",)
                else:
                    exp[k] = ("keep",)
            else:
                on = fam.owner_nid
                if on in reach and not tp.nodes[on].const:
                    g = cot.get(on)
                    if g is None:
                        exp[k] = ("none",)
                    else:
                        exp[k] = ("val", g.ravel()[i.ids])
                elif i.nid in reach:
                    # a non-constant view of a constant owner that L depends on
                    g = cot.get(i.nid)
                    exp[k] = ("val", g) if g is not None else ("none",)
                else:
                    exp[k] = ("keep",)
        rec["expected"] = exp
        rec["reach_handles"] = [k for k, i in self.info.items() if i.nid in reach]

    def exact_only_ints(self):
        return False

    def _nnet_call(self, layer, a, p):
        from mygrad.nnet import activations as act, layers as lay, losses as los

        if layer == "softmax":
            return act.softmax(a[0], axis=p.get("axis", -1))
        if layer == "logsoftmax":
            return act.logsoftmax(a[0], axis=p.get("axis", -1))
        if layer == "softmax_crossentropy":
            return los.softmax_crossentropy(a[0], a[1])
        if layer == "softmax_focal_loss":
            return los.softmax_focal_loss(a[0], a[1], alpha=p.get("alpha", 1), gamma=p.get("gamma", 0))
        if layer == "focal_loss":
            return los.focal_loss(a[0], a[1], alpha=p.get("alpha", 1), gamma=p.get("gamma", 0))
        if layer == "margin_ranking_loss":
            return los.margin_ranking_loss(a[0], a[1], a[2], p.get("margin", 0.5))
        if layer == "conv_nd":
            return lay.conv_nd(a[0], a[1], stride=p.get("stride", 1), padding=p.get("padding", 0), dilation=p.get("dilation", 1))
        if layer == "max_pool":
            return lay.max_pool(a[0], tuple(p["pool"]), p.get("stride", 1))
        if layer == "batchnorm":
            return lay.batchnorm(a[0], gamma=a[1] if len(a) > 1 else None, beta=a[2] if len(a) > 2 else None, eps=1e-5)
        if layer == "gru":
            return lay.gru(*a, bp_lim=p.get("bp_lim"))
        raise ValueError(layer)

    def ev_nnet(self, ev):
        h = ev["out"]
        refs = ev["args"]
        if h in self.T or not all(self.has(r) for r in refs):
            return self._skip("ref")
        p = ev.get("p", {})
        try:
            with mg.no_autodiff:
                sv = self._nnet_call(ev["layer"], [np.array(self.shadow(r), copy=True) for r in refs], p)
            sout = np.array(sv.data, copy=True)
            del sv
        except Exception:
            return self._skip("shadow")
        self._mark_entered(refs)
        try:
            t = self._nnet_call(ev["layer"], [self.real(r) for r in refs], p)
        except Exception as e:
            return Outcome("unexp", type(e).__name__, str(e)[:200])
        self.T[h] = t
        self.S[h] = sout
        const = self.expected_const(refs, None, sout.dtype)
        nid = self.tape.opaque(np.asarray(sout, dtype=np.float64), [self.nid_of(r) for r in refs], const)
        self.tape.nodes[nid].params = {"layer": ev["layer"]}
        i = self._new_tinfo(h, t, const, nid, foreign=True)
        i.entered = bool(self.tracking and self.guard)
        i.made_by = "nnet:" + ev["layer"]
        self.h_update(np.asarray(t.data))
        return Outcome("ok")

    def ev_terminal(self, ev):
        """L = sum_i c_i * T[h_i].sum() over the terms that exist (shrink-friendly terminal)"""
        h = ev["out"]
        if h in self.T:
            return self._skip("dup")
        terms = [(k, c) for k, c in ev["terms"] if k in self.T and is_float(self.T[k].dtype)]
        if not terms:
            return self._skip("ref")
        tp = self.tape
        acc = sacc = nacc = None
        self._mark_entered([{"t": k} for k, _ in terms])
        try:
            for k, c in terms:
                m = self.T[k].sum() * c
                acc = m if acc is None else acc + m
                del m
        except Exception as e:
            acc = None
            return Outcome("unexp", type(e).__name__, str(e)[:200])
        all_const = True
        for k, c in terms:
            sm = np.asarray(self.S[k].sum() * np.asarray(c))
            sacc = sm if sacc is None else np.asarray(sacc + sm)
            i = self.info[k]
            all_const = all_const and i.const
            n1 = tp.apply("reduce", [i.nid], {"fn": "sum", "axis": None, "keepdims": False}, i.const)
            n2 = tp.apply("ew2", [n1, tp.leaf(np.asarray(c, dtype=np.float64), True)], {"fn": "mul"}, i.const)
            if nacc is None:
                nacc, nconst = n2, i.const
            else:
                nconst = nconst and i.const
                nacc = tp.apply("ew2", [nacc, n2], {"fn": "add"}, nconst)
        self.T[h] = acc
        self.S[h] = np.asarray(sacc)
        # the value as NumPy computed it in the native dtypes (exact ties with later operands matter)
        tp.set_val(nacc, self.S[h])
        ti = self._new_tinfo(h, acc, nconst, nacc)
        ti.entered = bool(self.tracking and self.guard)
        ti.made_by = "terminal"
        del acc
        self.h_update(np.asarray(self.T[h].data))
        return Outcome("ok")

    def ev_clear(self, ev):
        h = ev["tgt"]
        if h not in self.T:
            return self._skip("ref")
        self.last_backward = None
        had_creator = {k for k, tt in self.T.items() if tt.creator is not None}
        try:
            self.T[h].clear_graph()
        except Exception as e:
            return Outcome("unexp", type(e).__name__, str(e)[:200])
        self._model_clear(h)
        self._clear_leak_check(had_creator)
        return Outcome("ok")

    def ev_null_grad(self, ev):
        h = ev["tgt"]
        if h not in self.T:
            return self._skip("ref")
        r = self.T[h].null_grad()
        if r is not self.T[h]:
            self.violation("C07", "C07.null_grad_identity", "null_grad did not return self")
        del r
        return Outcome("ok")

    # ------------------------------------------------------------------ references
    def ev_drop(self, ev):
        kind, h = ev["kind"], ev["h"]
        if kind == "T":
            if h not in self.T:
                return self._skip("ref")
            if ev.get("cycle"):
                box = [self.T[h]]
                box.append(box)
                self.parked.append(weakref.ref(self.T[h]))
                del box
                self.count("drop.cycle")
            self._drop_T(h)
        else:
            if h not in self.A:
                return self._skip("ref")
            if ev.get("cycle"):
                box = [self.A[h]]
                box.append(box)
                del box
                self.count("drop.cycle")
            self.A.pop(h)
            self.SA.pop(h, None)
            self.a_orig.pop(h, None)
            self.a_entered.pop(h, None)
        return Outcome("ok")

    def ev_readgrad(self, ev):
        """the caller reads .grad of some handles (the read schedule of C06); nothing else happens"""
        for h in ev.get("hs", []):
            if h in self.T:
                g = self.read_grad(self.T[h], h)
                del g
        return Outcome("ok")

    def ev_iter_end(self, ev):
        """end of a training-loop iteration: {"k":"iter_end","id":i,"leaves":[..],"rep_of":j|None}"""
        return Outcome("ok")

    def ev_sched(self, ev):
        return Outcome("ok")

    def ev_sched_end(self, ev):
        return Outcome("ok")

    def ev_gc(self, ev):
        n = gc.collect()
        if n:
            self.probe("gc_collected")
        self._after_gc()
        return Outcome("ok")

    def _after_gc(self):
        self.parked = [r for r in self.parked if r() is not None]

    # ------------------------------------------------------------------ switches (M4)
    MGRS = {"no_autodiff": lambda: mg.no_autodiff, "mem_guard_on": lambda: mg.mem_guard_on, "mem_guard_off": lambda: mg.mem_guard_off}

    def _enter_model(self, name):
        if name == "no_autodiff":
            self.scope_stack.append((name, self.tracking))
            self.tracking = False
        elif name == "mem_guard_on":
            self.scope_stack.append((name, self.guard))
            self.guard = True
        else:
            self.scope_stack.append((name, self.guard))
            self.guard = False

    def _exit_model(self):
        name, saved = self.scope_stack.pop()
        if name == "no_autodiff":
            self.tracking = saved
        else:
            self.guard = saved
        return name

    def _exit_scope(self, exc):
        # used only by finish() for scopes opened by enter events (flat style)
        name, saved = self.scope_stack[-1]
        m = self.MGRS[name]()
        m.__exit__(None, None, None)
        self._exit_model()

    VAR = {"no_autodiff": "track", "mem_guard_on": "guard", "mem_guard_off": "guard"}

    def ev_hold_open(self, ev):
        """a scope entered but not left by the end of the statement: a generator suspended inside
        `with m:`, an ExitStack, or a manual __enter__().  It stays open until a hold_close."""
        hid, name = ev["id"], ev["mgr"]
        if hid in self.held:
            return self._skip("dup")
        m = self.MGRS[name]()
        style = ev.get("style", "gen")
        var = self.VAR[name]
        saved = self.tracking if var == "track" else self.guard
        if style == "gen":

            def holder():
                with m:
                    yield 1
                yield 2

            obj = holder()
            next(obj)
        elif style == "stack":
            import contextlib

            obj = contextlib.ExitStack()
            obj.enter_context(m)
        else:
            m.__enter__()
            obj = m
        self.scope_seq += 1
        self.held[hid] = {"mgr": name, "var": var, "saved": saved, "style": style, "obj": obj, "seq": self.scope_seq}
        self.var_stack[var].append(("held", hid, self.scope_seq))
        if name == "no_autodiff":
            self.tracking = False
        else:
            self.guard = name == "mem_guard_on"
        self.probe("c15.held_scope_opened")
        for o in self.obs:
            o.scope_event(self, "enter", name)
        return Outcome("ok")

    def _close_held(self, hid, exc):
        rec = self.held.pop(hid)
        obj, style, var = rec["obj"], rec["style"], rec["var"]
        other = self.var_stack["guard" if var == "track" else "track"]
        if other and other[-1][2] > rec["seq"]:
            self.probe("c15.interleaved_exit")  # left while a scope of the other setting, entered later, is still open
        if style == "gen":
            if exc:
                obj.close()  # GeneratorExit travels through the with statement
            else:
                next(obj)
                obj.close()
        elif style == "stack":
            if exc:
                try:
                    raise BodyRaise(0)
                except BodyRaise as e:
                    obj.__exit__(type(e), e, e.__traceback__)
            else:
                obj.close()
        else:
            if exc:
                try:
                    raise BodyRaise(0)
                except BodyRaise as e:
                    obj.__exit__(type(e), e, e.__traceback__)
            else:
                obj.__exit__(None, None, None)
        vs = self.var_stack[var]
        assert vs and vs[-1][:2] == ("held", hid)
        vs.pop()
        if var == "track":
            self.tracking = rec["saved"]
        else:
            self.guard = rec["saved"]
        if exc:
            self.probe("c15.exceptional_exit")
        for o in self.obs:
            o.scope_event(self, "exit_exc" if exc else "exit", rec["mgr"])

    def ev_hold_close(self, ev):
        hid = ev["id"]
        if hid not in self.held:
            return self._skip("ref")
        vs = self.var_stack[self.held[hid]["var"]]
        if vs[-1][:2] != ("held", hid):
            # leaving it now would not be last-in-first-out *for its own setting*: the statement
            # "restores what was in force on entry" has no agreed meaning then
            return self._skip("nonlifo")
        self._close_held(hid, bool(ev.get("exc")))
        return Outcome("ok")

    def abandon_held(self):
        """run aborted (violation / harness error): leave no suspended generator behind whose
        finaliser would run __exit__ at some later, garbage-collection-determined moment"""
        for rec in list(self.held.values()):
            try:
                if rec["style"] == "gen":
                    rec["obj"].close()
                elif rec["style"] == "stack":
                    rec["obj"].close()
                else:
                    rec["obj"].__exit__(None, None, None)
            except Exception:
                pass
        self.held.clear()

    def _close_held_above(self, var, key):
        """before a with-scope of setting `var` is left: scopes of the same setting that were held
        open inside its body are closed first (keeps every history per-setting LIFO, also after
        shrinking removed their hold_close)"""
        vs = self.var_stack[var]
        while vs and vs[-1] != key:
            self._close_held(vs[-1][1], False)

    def ev_scope(self, ev):
        """{"k":"scope","mgr":..,"style":"with"|"deco","body":[...]}; the body runs recursively inside
        a real with-block / decorated function.  A {"k":"raise","levels":n} statement in a body
        raises an exception that unwinds n+1 enclosing scopes before it is caught (S5)."""
        name = ev["mgr"]
        m = self.MGRS[name]()
        body = ev.get("body", [])
        world = self

        var = self.VAR[name]
        self.scope_seq += 1
        key = ("with", self.scope_seq, self.scope_seq)

        def run_body():
            world._enter_model(name)
            world.var_stack[var].append(key)
            for o in world.obs:
                o.scope_event(world, "enter", name)
            try:
                for sub in body:
                    world.step(sub)
                    if world.violations and world.cfg.get("stop_on_violation", True):
                        break
                if ev.get("raise"):
                    world.count("fault.body_exception")
                    raise BodyRaise(0)
            finally:
                world._close_held_above(var, key)

        caught = None
        try:
            if ev.get("style") == "deco":
                m(run_body)()
            else:
                with m:
                    run_body()
        except BodyRaise as e:
            caught = e
        self._exit_model()
        if self.var_stack[var] and self.var_stack[var][-1] == key:
            self.var_stack[var].pop()
        for o in self.obs:
            o.scope_event(self, "exit_exc" if caught is not None else "exit", name)
        out = Outcome("ok")
        if caught is not None:
            self.probe("c15.exceptional_exit")
            if caught.levels > 0:
                caught.levels -= 1
                out.propagate = caught
        return out

    def ev_raise(self, ev):
        if not self.scope_stack:
            return self._skip("noscope")
        self.count("fault.body_exception")
        out = Outcome("ok")
        out.propagate = BodyRaise(min(int(ev.get("levels", 0)), len(self.scope_stack) - 1))
        return out

    def ev_toggle(self, ev):
        if ev["on"]:
            mg.turn_memory_guarding_on()
        else:
            mg.turn_memory_guarding_off()
        self.guard = bool(ev["on"])
        for o in self.obs:
            o.scope_event(self, "toggle", ev["on"])
        return Outcome("ok")

    # ------------------------------------------------------------------ conversions (C17)
    def ev_conv(self, ev):
        """conversion of an existing tensor: how in astensor | tensor_nocopy | tensor_copy | copy | astype | asarray"""
        src, how = ev["src"], ev["how"]
        if src not in self.T:
            return self._skip("ref")
        t = self.T[src]
        si = self.info[src]
        dtype = ev.get("dtype")
        c = ev.get("constant")
        npdt = dt(dtype) if dtype else None
        out_dt = npdt if npdt is not None else t.dtype
        expect_fail = self.tracking and c is False and not is_float(out_dt)
        try:
            if how == "astensor":
                r = mg.astensor(t, dtype=npdt, constant=c)
            elif how == "tensor_nocopy":
                r = mg.tensor(t, dtype=npdt, constant=c, copy=False)
            elif how == "tensor_copy":
                r = mg.tensor(t, dtype=npdt, constant=c)
            elif how == "copy":
                r = t.copy(constant=c)
            elif how == "astype":
                r = t.astype(out_dt, constant=c) if ev.get("copy", True) else t.astype(out_dt, copy=False, constant=c)
            elif how == "asarray":
                r = mg.asarray(t)
            else:
                return self._skip("how")
        except Exception as e:
            st = "fail" if expect_fail else "unexp"
            return Outcome(st, type(e).__name__, str(e)[:200], expected_fail=expect_fail)
        self.last_conv = {"src": src, "how": how, "copy": ev.get("copy", True), "result_is_src": r is t, "dtype_match": npdt is None or npdt == t.dtype, "const_match": c is None or c is bool(t.constant),
                          "shares": isinstance(getattr(r, "data", r), np.ndarray) and getattr(r, "data", r).size > 0 and bool(np.shares_memory(getattr(r, "data", r), t.data)), "out": ev.get("out")}
        if expect_fail:
            return Outcome("nofail")
        if how == "asarray":
            ha = ev["out"]
            if ha in self.A:
                return self._skip("dup")
            self.A[ha] = r
            self.SA[ha] = self.S[src] if r is t.data else np.array(r, copy=True)
            self.a_orig[ha] = si.orig_w
            self.a_entered[ha] = si.entered
            self.a_kind[ha] = "asarray"
            self.a_origin[ha] = si.made_by
            self.last_conv["is_data"] = r is t.data
            return Outcome("ok")
        h = ev["out"]
        if h in self.T:
            return self._skip("dup")
        if r is t:
            # the very same tensor: the handle is an alias
            self.T[h] = r
            self.S[h] = self.S[src]
            self.info[h] = si
            si.fam.members.setdefault(h, si.ids)
            self.alias_of[h] = self.alias_of.get(src, src)
            self.alias_of_all[h] = self.alias_of[h]
            return Outcome("ok")
        self.T[h] = r
        shares = self.last_conv["shares"]
        self.S[h] = self.S[src] if shares else np.array(r.data, copy=True)
        const = bool(r.constant)
        nid = self.tape.leaf(np.asarray(r.data, dtype=np.float64), const)
        i = self._new_tinfo(h, r, const, nid, foreign=True, orig_w=si.orig_w if shares else True)
        i.made_by = "conv:" + how
        return Outcome("ok")

    def ev_awrite(self, ev):
        """the caller changes the contents of one of its own arrays through NumPy (C17: who sees it?)"""
        ha = ev["a"]
        if ha not in self.A:
            return self._skip("ref")
        a = self.A[ha]
        if a.size == 0:
            return self._skip("empty")
        if not a.flags.writeable:
            return Outcome("fail", "ValueError", "read-only", expected_fail=True, fault="caller_write")
        try:
            a[...] = ev["val"]
        except Exception as e:
            return Outcome("fail", type(e).__name__, str(e)[:100], expected_fail=True)
        sa = self.SA[ha]
        wflag = sa.flags.writeable
        if not wflag:
            sa.flags.writeable = True
        sa[...] = ev["val"]
        if not wflag:
            sa.flags.writeable = False
        # physically shared memory that no live graph protects: the tape's leaves follow
        for k, t in self.T.items():
            if t.data.size and np.shares_memory(t.data, a):
                ki = self.info[k]
                ki.nid = self.tape.leaf(np.asarray(t.data, dtype=np.float64), ki.const)
                if t.creator is not None or len(getattr(t, "_ops", ())) > 0:
                    # only possible with the guard off: the caller corrupted a live graph
                    self.grad_poisoned = True
        for hb in self.a_used:
            b = self.A.get(hb)
            if b is not None and b.size and np.shares_memory(b, a):
                self.grad_poisoned = True  # (guard off) an operand of a recorded op was overwritten
        # ... or memory of a tensor the caller no longer holds but a live op still does
        self.discover()
        for rec in self.oprecs.values():
            if rec.ref() is None:
                continue
            for r in list(rec.arrs) + list(rec.bases):
                b = r()
                if b is not None and b.size and a.size and np.shares_memory(b, a):
                    self.grad_poisoned = True
        return Outcome("ok")

    # ------------------------------------------------------------------ save / load (S6)
    def _scratch(self):
        if self._tmpdir is None:
            import tempfile

            self._tmpdir = tempfile.mkdtemp(prefix="mgsim-io-")
        return self._tmpdir

    def ev_save(self, ev):
        h, fid = ev["src"], ev["id"]
        if h not in self.T:
            return self._skip("ref")
        sink = ev["sink"]
        t = self.T[h]
        g = self.read_grad(t, h)
        snap = {
            "data": np.array(t.data, copy=True),
            "grad": None if g is None else np.array(g, copy=True),
            "grad_dtype": None if g is None else np.asarray(g).dtype,
            "shape": t.shape,
            "dtype": t.dtype,
            "constant": bool(t.constant),
            "tracking": self.tracking,
        }
        del g
        try:
            if sink["kind"] == "path":
                import os
                import pathlib

                pth = os.path.join(self._scratch(), f"t{fid}.npz")
                mg.save(pathlib.Path(pth) if sink.get("as") == "Path" else pth, t)
                self.files[fid] = {"kind": "path", "path": pth, "as": sink.get("as"), "snap": snap}
            else:
                f = SimFile(seekable=sink.get("seekable", True), offset=sink.get("offset", 0), fail_at=sink.get("fail_at"))
                try:
                    mg.save(f, t)
                finally:
                    if f.fired:
                        self.count("fault.file_write_error")
                self.files[fid] = {"kind": "simfile", "bytes": f.getvalue(), "offset": sink.get("offset", 0), "snap": snap}
        except OSError as e:
            del t
            return Outcome("fail", type(e).__name__, str(e)[:100], expected_fail=True, fault="file_write")
        except Exception as e:
            del t
            return Outcome("unexp", type(e).__name__, str(e)[:200])
        del t
        self.probe("c18.saved." + sink["kind"])
        return Outcome("ok")

    def ev_load(self, ev):
        h, fid = ev["out"], ev["id"]
        if h in self.T or fid not in self.files:
            return self._skip("ref")
        rec = self.files[fid]
        try:
            if rec["kind"] == "path":
                import pathlib

                t = mg.load(pathlib.Path(rec["path"]) if rec.get("as") == "Path" else rec["path"])
            else:
                f = SimFile(seekable=True, offset=0, data=rec["bytes"][rec["offset"] :])
                t = mg.load(f)
        except Exception as e:
            return Outcome("unexp", type(e).__name__, str(e)[:200])
        if not isinstance(t, Tensor):
            return Outcome("unexp", "NotATensor", "")
        self.T[h] = t
        self.S[h] = np.array(rec["snap"]["data"], copy=True)
        const = bool(t.constant)
        nid = self.tape.leaf(np.asarray(t.data, dtype=np.float64), const)
        i = self._new_tinfo(h, t, const, nid, foreign=True)
        i.made_by = "load"
        self.last_load = (h, rec["snap"])
        return Outcome("ok")

    # ------------------------------------------------------------------ caller writes (F7)
    def ev_write(self, ev):
        """the caller tries to write through NumPy (a value-preserving write, so no model changes)"""
        ha = ev["a"]
        if ha not in self.A:
            return self._skip("ref")
        a = self.A[ha]
        if a.size == 0:
            return self._skip("empty")
        self.count("fault.caller_write")
        try:
            a[...] = a
        except ValueError:
            return Outcome("fail", "ValueError", "read-only", expected_fail=True, fault="caller_write")
        return Outcome("ok")

    # ------------------------------------------------------------------ M3 discovery
    def discover(self):
        """walk the public attributes from every caller-held tensor and register unseen ops"""
        seen_t = set()
        stack = list(self.T.values())
        for r in self.parked:
            x = r()
            if x is not None:
                stack.append(x)
        reach = set()
        while stack:
            t = stack.pop()
            if id(t) in seen_t:
                continue
            seen_t.add(id(t))
            c = t.creator
            if c is not None:
                key = id(c)
                reach.add(key)
                rec = self.oprecs.get(key)
                if rec is None or rec.ref() is not c:
                    rec = OpRec(c, self.clock, bool(self.guard and self.tracking))
                    try:
                        vs = tuple(c.variables)
                    except AttributeError:
                        vs = ()
                    for v in vs:
                        rec.arrs.append(weakref.ref(v.data))
                        rec.tensors.append(weakref.ref(v))
                        if isinstance(v.data.base, np.ndarray):
                            rec.bases.append(weakref.ref(v.data.base))
                    rec.arrs.append(weakref.ref(t.data))
                    if isinstance(t.data.base, np.ndarray):
                        rec.bases.append(weakref.ref(t.data.base))
                    rec.out_ref = weakref.ref(t)
                    self.oprecs[key] = rec
                    self.probe("op." + rec.name)
                for v in c.variables:
                    stack.append(v)
            b = t.base
            if b is not None:
                stack.append(b)
        self.reachable_ops = reach
        # prune dead
        dead = [k for k, r in self.oprecs.items() if r.ref() is None]
        for k in dead:
            del self.oprecs[k]
        del stack, seen_t
