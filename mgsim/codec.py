"""JSON encoding of index objects and small arrays so that a history is a self-contained file."""
import numpy as np

_DT = {"f8": np.float64, "f4": np.float32, "f2": np.float16, "i8": np.int64, "i4": np.int32, "i2": np.int16, "u1": np.uint8, "b1": np.bool_}
_RDT = {np.dtype(v).str[1:]: k for k, v in _DT.items()}


def dt(code):
    return np.dtype(_DT[code])


def dtcode(dtype):
    return _RDT[np.dtype(dtype).str[1:]]


def enc_arr(a):
    a = np.asarray(a)
    return {"d": dtcode(a.dtype), "s": list(a.shape), "v": a.ravel().tolist()}


def dec_arr(o):
    return np.array(o["v"], dtype=dt(o["d"])).reshape(o["s"])


def enc_index(ix):
    """index -> JSON.  Supported: int, slice, None, Ellipsis, int/bool arrays, tuples of those."""
    if isinstance(ix, tuple):
        return {"t": [enc_index(i) for i in ix]}
    if ix is None:
        return "N"
    if ix is Ellipsis:
        return "E"
    if isinstance(ix, slice):
        return {"sl": [ix.start, ix.stop, ix.step]}
    if isinstance(ix, (bool, np.bool_)):
        return {"b": bool(ix)}
    if isinstance(ix, (int, np.integer)):
        return int(ix)
    if isinstance(ix, np.ndarray):
        return {"a": enc_arr(ix)}
    if isinstance(ix, list):
        return {"l": ix}
    raise TypeError(f"cannot encode index {ix!r}")


def dec_index(o):
    if isinstance(o, dict):
        if "t" in o:
            return tuple(dec_index(i) for i in o["t"])
        if "sl" in o:
            return slice(*o["sl"])
        if "a" in o:
            return dec_arr(o["a"])
        if "l" in o:
            return o["l"]
        if "b" in o:
            return o["b"]
        raise TypeError(o)
    if o == "N":
        return None
    if o == "E":
        return Ellipsis
    return int(o)


def index_is_basic(ix):
    if not isinstance(ix, tuple):
        ix = (ix,)
    return all(i is None or i is Ellipsis or isinstance(i, (slice, int, np.integer)) and not isinstance(i, (bool, np.bool_)) for i in ix)
