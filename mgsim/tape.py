"""M2 - functional ("SSA") reference tape.  NumPy only; never imports MyGrad.

Every node is an immutable *version*.  Nodes are appended in creation order, which is a
topological order, so the reverse pass is a reverse scan.  All arithmetic is float64.
"""
import numpy as np


def unbroadcast(g, shape):
    shape = tuple(shape)
    if g.shape == shape:
        return g
    nd = g.ndim - len(shape)
    if nd > 0:
        g = g.sum(axis=tuple(range(nd)))
    ax = tuple(i for i, (gs, s) in enumerate(zip(g.shape, shape)) if s == 1 and gs != 1)
    if ax:
        g = g.sum(axis=ax, keepdims=True)
    return g.reshape(shape)


def _norm_axis(axis, ndim):
    if axis is None:
        return tuple(range(ndim))
    if isinstance(axis, (int, np.integer)):
        axis = (int(axis),)
    return tuple(sorted(a % ndim for a in axis))


def _expand_reduced(g, in_shape, axis, keepdims):
    """broadcast the cotangent of a reduction back to the operand's shape"""
    ax = _norm_axis(axis, len(in_shape))
    g = np.asarray(g, dtype=np.float64)
    if not keepdims:
        shp = [1 if i in ax else s for i, s in enumerate(in_shape)]
        g = g.reshape(shp)
    return np.broadcast_to(g, in_shape)


EW1 = {
    "neg": (lambda a: -a, lambda g, a, o: -g),
    "pos": (lambda a: +a, lambda g, a, o: g),
    "square": (lambda a: a * a, lambda g, a, o: 2 * a * g),
    "abs": (lambda a: np.abs(a), lambda g, a, o: np.sign(a) * g),
    "exp": (lambda a: np.exp(a), lambda g, a, o: g * o),
    "log": (lambda a: np.log(a), lambda g, a, o: g / a),
    "sin": (lambda a: np.sin(a), lambda g, a, o: g * np.cos(a)),
    "cos": (lambda a: np.cos(a), lambda g, a, o: -g * np.sin(a)),
    "tanh": (lambda a: np.tanh(a), lambda g, a, o: g * (1 - o * o)),
    "sqrt": (lambda a: np.sqrt(a), lambda g, a, o: g / (2 * o)),
    "reciprocal": (lambda a: 1 / a, lambda g, a, o: -g * o * o),
    "sinc": (lambda a: np.sinc(a), lambda g, a, o: g * (np.cos(np.pi * a) * np.pi * a - np.sin(np.pi * a)) / (np.pi * a * a)),
    # the rest of MyGrad's elementwise vocabulary (derivatives written from the calculus, not from
    # MyGrad's code; the finite-difference self-check of the tape covers them like every other rule)
    "arccos": (lambda a: np.arccos(a), lambda g, a, o: -g / np.sqrt(1 - a * a)),
    "arcsin": (lambda a: np.arcsin(a), lambda g, a, o: g / np.sqrt(1 - a * a)),
    "arctan": (lambda a: np.arctan(a), lambda g, a, o: g / (1 + a * a)),
    "arccosh": (lambda a: np.arccosh(a), lambda g, a, o: g / np.sqrt(a * a - 1)),
    "arcsinh": (lambda a: np.arcsinh(a), lambda g, a, o: g / np.sqrt(a * a + 1)),
    "arctanh": (lambda a: np.arctanh(a), lambda g, a, o: g / (1 - a * a)),
    "cbrt": (lambda a: np.cbrt(a), lambda g, a, o: g / (3 * o * o)),
    "cosh": (lambda a: np.cosh(a), lambda g, a, o: g * np.sinh(a)),
    "sinh": (lambda a: np.sinh(a), lambda g, a, o: g * np.cosh(a)),
    "tan": (lambda a: np.tan(a), lambda g, a, o: g * (1 + o * o)),
    "exp2": (lambda a: np.exp2(a), lambda g, a, o: g * o * np.log(2.0)),
    "expm1": (lambda a: np.expm1(a), lambda g, a, o: g * (o + 1)),
    "log10": (lambda a: np.log10(a), lambda g, a, o: g / (a * np.log(10.0))),
    "log2": (lambda a: np.log2(a), lambda g, a, o: g / (a * np.log(2.0))),
    "log1p": (lambda a: np.log1p(a), lambda g, a, o: g / (1 + a)),
    "cot": (lambda a: 1 / np.tan(a), lambda g, a, o: -g * (1 + o * o)),
    "sec": (lambda a: 1 / np.cos(a), lambda g, a, o: g * o * np.tan(a)),
    "csc": (lambda a: 1 / np.sin(a), lambda g, a, o: -g * o / np.tan(a)),
    "coth": (lambda a: 1 / np.tanh(a), lambda g, a, o: g * (1 - o * o)),
    "sech": (lambda a: 1 / np.cosh(a), lambda g, a, o: -g * o * np.tanh(a)),
    "csch": (lambda a: 1 / np.sinh(a), lambda g, a, o: -g * o / np.tanh(a)),
    "arccot": (lambda a: np.arctan(1 / a), lambda g, a, o: -g / (1 + a * a)),
    "arccoth": (lambda a: np.arctanh(1 / a), lambda g, a, o: g / (1 - a * a)),
    "arccsc": (lambda a: np.arcsin(1 / a), lambda g, a, o: -g / (np.abs(a) * np.sqrt(a * a - 1))),
    "arcsec": (lambda a: np.arccos(1 / a), lambda g, a, o: g / (np.abs(a) * np.sqrt(a * a - 1))),
    "arccsch": (lambda a: np.arcsinh(1 / a), lambda g, a, o: -g / (np.abs(a) * np.sqrt(a * a + 1))),
}

EW2 = {
    "add": (lambda a, b: a + b, lambda g, a, b, o: (g, g)),
    "sub": (lambda a, b: a - b, lambda g, a, b, o: (g, -g)),
    "mul": (lambda a, b: a * b, lambda g, a, b, o: (g * b, g * a)),
    "div": (lambda a, b: a / b, lambda g, a, b, o: (g / b, -g * a / (b * b))),
    "maximum": (lambda a, b: np.maximum(a, b), lambda g, a, b, o: (g * (a > b), g * (b > a))),
    "minimum": (lambda a, b: np.minimum(a, b), lambda g, a, b, o: (g * (a < b), g * (b < a))),
    "power": (
        lambda a, b: np.power(a, b),
        lambda g, a, b, o: (g * b * np.power(a, b - 1), None),
    ),
    "arctan2": (lambda a, b: np.arctan2(a, b), lambda g, a, b, o: (g * b / (a * a + b * b), -g * a / (a * a + b * b))),
    "logaddexp": (lambda a, b: np.logaddexp(a, b), lambda g, a, b, o: (g * np.exp(a - o), g * np.exp(b - o))),
    "logaddexp2": (lambda a, b: np.logaddexp2(a, b), lambda g, a, b, o: (g * np.exp2(a - o), g * np.exp2(b - o))),
}


class Node:
    __slots__ = ("i", "kind", "parents", "params", "val", "const", "severed", "nondiff", "opaque", "born", "severed_at")

    def __init__(self, i, kind, parents, params, val, const):
        self.i = i
        self.kind = kind
        self.parents = parents
        self.params = params
        self.val = val
        self.const = const
        self.severed = False
        self.born = 0
        self.severed_at = -1
        self.nondiff = False  # a point where the derivative does not exist was hit at this node
        self.opaque = False  # the tape has no VJP for this node: nothing upstream of it is judged


class TapeError(Exception):
    pass


class Tape:
    def __init__(self):
        self.nodes = []
        self.clock = 0  # set by the world: epoch counter
        self.vmax = 1.0  # largest finite |value| seen so far (absolute-error scale for cancellation)
        self.native_dtype_effects = False
        self.integer_valued = True  # every value so far is an integer below 2**50 (exactness certificate)

    # ------------------------------------------------------------------ construction
    def _add(self, kind, parents, params, const):
        vals = [self.nodes[p].val for p in parents]
        val = np.asarray(self._forward(kind, vals, params), dtype=np.float64)
        n = Node(len(self.nodes), kind, tuple(parents), params, val, const)
        n.born = self.clock
        n.nondiff = self._is_nondiff(kind, vals, params, val)
        if val.size:
            m = float(np.max(np.abs(val)))
            if np.isfinite(m) and m > self.vmax:
                self.vmax = m
            if self.integer_valued and not (np.isfinite(m) and m < 2.0**50 and np.all(val == np.round(val))):
                self.integer_valued = False
        self.nodes.append(n)
        return n.i

    def leaf(self, val, const):
        v = np.array(val, dtype=np.float64)
        n = Node(len(self.nodes), "leaf", (), None, v, bool(const))
        n.born = self.clock
        if v.size:
            m = float(np.max(np.abs(v)))
            if np.isfinite(m) and m > self.vmax:
                self.vmax = m
            if self.integer_valued and not (np.isfinite(m) and m < 2.0**50 and np.all(v == np.round(v))):
                self.integer_valued = False
        self.nodes.append(n)
        return n.i

    def opaque(self, val, parents, const):
        v = np.array(val, dtype=np.float64)
        n = Node(len(self.nodes), "opaque", tuple(parents), None, v, bool(const))
        n.born = self.clock
        n.opaque = True
        self.integer_valued = False
        self.nodes.append(n)
        return n.i

    def apply(self, kind, parents, params, const):
        return self._add(kind, parents, params, const)

    def val(self, i):
        return self.nodes[i].val

    def set_val(self, i, v):
        """the forward value as NumPy computed it in the native dtype (bool/int arithmetic differs
        from the tape's float64 arithmetic: True + True is True)"""
        v = np.array(v, dtype=np.float64, copy=True)  # (a private copy: shadows are mutated in place later)
        n = self.nodes[i]
        if n.val.shape == v.shape and not np.array_equal(n.val, v, equal_nan=True):
            if not np.allclose(n.val, v, rtol=1e-3, atol=1e-3, equal_nan=True):
                self.native_dtype_effects = True  # FD self-validation would not see these
            n.val = v

    # ------------------------------------------------------------------ forward
    def _forward(self, kind, v, p):
        if kind == "ew1":
            return np.asarray(EW1[p["fn"]][0](v[0]), dtype=np.float64)
        if kind == "ew2":
            return np.asarray(EW2[p["fn"]][0](v[0], v[1]), dtype=np.float64)
        if kind == "gather":
            return v[0].ravel()[p["ids"]] if v[0].size else np.zeros(p["ids"].shape)
        if kind == "scatter":
            flat = v[0].reshape(-1).copy()
            flat[p["ids"].ravel()] = v[1].ravel()
            return flat.reshape(v[0].shape)
        if kind == "reduce":
            fn, axis, kd = p["fn"], p["axis"], p["keepdims"]
            ax = None if axis is None else (tuple(axis) if isinstance(axis, (list, tuple)) else axis)
            if fn in ("var", "std"):
                r = getattr(np, fn)(v[0], axis=ax, keepdims=kd, ddof=p.get("ddof", 0))
            else:
                r = getattr(np, fn)(v[0], axis=ax, keepdims=kd)
            return np.asarray(r, dtype=np.float64)
        if kind == "cumsum":
            return np.cumsum(v[0], axis=p["axis"])
        if kind == "cumprod":
            return np.cumprod(v[0], axis=p["axis"])
        if kind == "matmul":
            return np.asarray(np.matmul(v[0], v[1]), dtype=np.float64)
        if kind == "einsum":
            return np.asarray(np.einsum(p["subs"], *v), dtype=np.float64)
        if kind == "where":
            return np.where(p["cond"], v[0], v[1]).astype(np.float64)
        if kind == "clip":
            return np.clip(v[0], p["lo"], p["hi"])
        if kind == "concat":
            return np.concatenate(v, axis=p["axis"])
        if kind == "stack":
            return np.stack(v, axis=p["axis"])
        if kind == "setitem":
            out = v[0].copy()
            out[p["index"]] = v[1]
            return out
        if kind == "maskmerge":
            return np.where(p["mask"], v[0], v[1]).astype(np.float64)
        if kind == "bcast":
            return np.broadcast_to(v[0], p["shape"]).astype(np.float64)
        raise TapeError(f"unknown kind {kind}")

    def _is_nondiff(self, kind, v, p, out):
        if out.size and not np.all(np.isfinite(out)):
            return True  # left the finite domain: no derivative to compare with
        if kind == "ew1" and p["fn"] in ("sqrt", "log", "reciprocal"):
            return bool(np.any(v[0] <= 0)) if p["fn"] != "reciprocal" else bool(np.any(v[0] == 0))
        if kind == "ew2" and p["fn"] == "div":
            return bool(np.any(v[1] == 0))
        if kind == "ew2" and p["fn"] == "power":
            return bool(np.any((v[0] == 0) & (np.asarray(v[1]) < 1)))
        if kind == "ew1" and p["fn"] == "abs":
            return bool(np.any(v[0] == 0))
        if kind == "ew2" and p["fn"] in ("maximum", "minimum"):
            return bool(np.any(np.equal(*np.broadcast_arrays(v[0], v[1]))))
        if kind == "reduce" and p["fn"] in ("max", "min"):
            a = v[0]
            o = self._kd(out, a.shape, p)
            return bool(np.any((a == o).sum(axis=_norm_axis(p["axis"], a.ndim) or None) > 1)) if a.size else False
        if kind == "clip":
            a = v[0]
            nd = False
            if p["lo"] is not None:
                nd |= bool(np.any(a == p["lo"]))
            if p["hi"] is not None:
                nd |= bool(np.any(a == p["hi"]))
            return nd
        if kind == "reduce" and p["fn"] == "std":
            return bool(np.any(out == 0))
        if kind == "reduce" and p["fn"] == "prod":
            return False
        return False

    @staticmethod
    def _kd(out, in_shape, p):
        return _expand_reduced(out, in_shape, p["axis"], p["keepdims"])

    # ------------------------------------------------------------------ reverse
    def _vjp(self, n, g):
        """returns list of cotangent contributions aligned with n.parents (None = no gradient)"""
        kind, p = n.kind, n.params
        v = [self.nodes[q].val for q in n.parents]
        o = n.val
        if kind == "ew1":
            return [unbroadcast(EW1[p["fn"]][1](g, v[0], o), v[0].shape)]
        if kind == "ew2":
            ga, gb = EW2[p["fn"]][1](g, v[0], v[1], o)
            return [
                None if ga is None else unbroadcast(np.asarray(ga, dtype=np.float64), v[0].shape),
                None if gb is None else unbroadcast(np.asarray(gb, dtype=np.float64), v[1].shape),
            ]
        if kind == "gather":
            z = np.zeros(v[0].size)
            np.add.at(z, p["ids"].ravel(), g.ravel())
            return [z.reshape(v[0].shape)]
        if kind == "scatter":
            ids = p["ids"].ravel()
            flat = g.reshape(-1).copy()
            picked = flat[ids].reshape(v[1].shape)
            flat[ids] = 0
            return [flat.reshape(g.shape), picked]
        if kind == "reduce":
            a = v[0]
            fn = p["fn"]
            ge = _expand_reduced(g, a.shape, p["axis"], p["keepdims"])
            ax = _norm_axis(p["axis"], a.ndim)
            n_red = int(np.prod([a.shape[i] for i in ax])) if ax else 1
            if fn == "sum":
                return [ge.copy()]
            if fn == "mean":
                return [ge / n_red]
            if fn == "prod":
                # product of all others, computed without division
                out = np.zeros(a.shape)
                it = np.ndindex(*a.shape)
                for idx in it:
                    sl = tuple(slice(None) if i in ax else idx[i] for i in range(a.ndim))
                    sub = a[sl].copy()
                    sub_idx = tuple(idx[i] for i in range(a.ndim) if i in ax)
                    sub[sub_idx] = 1.0
                    out[idx] = np.prod(sub)
                return [ge * out]
            if fn in ("max", "min"):
                oe = self._kd(o, a.shape, p)
                return [ge * (a == oe)]
            if fn in ("var", "std"):
                ddof = p.get("ddof", 0)
                m = a.mean(axis=ax or None, keepdims=True) if ax else a
                gv = ge * 2 * (a - m) / (n_red - ddof)
                if fn == "std":
                    oe = self._kd(o, a.shape, p)
                    gv = gv / (2 * oe)
                return [gv]
        if kind == "cumsum":
            ax = p["axis"]
            if ax is None:
                return [np.flip(np.cumsum(np.flip(g.ravel()))).reshape(v[0].shape)]
            return [np.flip(np.cumsum(np.flip(g, axis=ax), axis=ax), axis=ax)]
        if kind == "cumprod":
            # (no zeros in the operand - the generator keeps away from them): d out_j / d x_i = out_j / x_i for j >= i
            ax = p["axis"]
            o = np.cumprod(v[0], axis=ax)
            if ax is None:
                r = np.flip(np.cumsum(np.flip((g.ravel() * o.ravel())))).reshape(v[0].shape)
            else:
                r = np.flip(np.cumsum(np.flip(g * o, axis=ax), axis=ax), axis=ax)
            return [r / v[0]]
        if kind == "matmul":
            a, b = v
            if a.ndim == 1 and b.ndim == 1:
                return [g * b, g * a]
            a2 = a[None, :] if a.ndim == 1 else a
            b2 = b[:, None] if b.ndim == 1 else b
            g2 = g
            if a.ndim == 1:
                g2 = np.expand_dims(g2, -2)
            if b.ndim == 1:
                g2 = np.expand_dims(g2, -1)
            ga = np.matmul(g2, np.swapaxes(b2, -1, -2))
            gb = np.matmul(np.swapaxes(a2, -1, -2), g2)
            if a.ndim == 1:
                ga = ga.reshape(ga.shape[:-2] + (ga.shape[-1],))
            if b.ndim == 1:
                gb = gb.reshape(gb.shape[:-1])
            return [unbroadcast(ga, a.shape), unbroadcast(gb, b.shape)]
        if kind == "einsum":
            ins, out = p["subs"].split("->")
            ins = ins.split(",")
            res = []
            for k, sub in enumerate(ins):
                others = [s for j, s in enumerate(ins) if j != k]
                ovals = [x for j, x in enumerate(v) if j != k]
                vk = v[k]
                diag_ids = None
                if len(set(sub)) != len(sub):
                    # repeated letter within one operand: x -> its (generalised) diagonal is a gather;
                    # differentiate the pattern with the diagonal as the operand, then scatter back
                    u = "".join(dict.fromkeys(sub))
                    diag_ids = np.einsum(sub + "->" + u, np.arange(vk.size).reshape(vk.shape))
                    vk = np.einsum(sub + "->" + u, vk)
                    sub = u
                # indices of `sub` missing from out and others were summed: broadcast g
                avail = set(out) | set("".join(others))
                missing = [c for c in sub if c not in avail]
                sub_r = "".join(c for c in sub if c not in missing)
                expr = ",".join([out] + others) + "->" + sub_r
                gk = np.einsum(expr, g, *ovals)
                if missing:
                    shp = [vk.shape[sub.index(c)] for c in sub]
                    idx = tuple(slice(None) if c not in missing else None for c in sub)
                    gk = np.broadcast_to(gk[idx], shp).copy()
                gk = np.asarray(gk, dtype=np.float64)
                if diag_ids is not None:
                    z = np.zeros(v[k].size)
                    np.add.at(z, diag_ids.ravel(), gk.ravel())
                    gk = z.reshape(v[k].shape)
                res.append(gk)
            return res
        if kind == "where":
            c = p["cond"]
            return [unbroadcast(np.where(c, g, 0.0), v[0].shape), unbroadcast(np.where(c, 0.0, g), v[1].shape)]
        if kind == "clip":
            a = v[0]
            m = np.ones(a.shape, dtype=bool)
            if p["lo"] is not None:
                m &= a >= p["lo"]
            if p["hi"] is not None:
                m &= a <= p["hi"]
            return [g * m]
        if kind == "concat":
            ax = p["axis"]
            res, s = [], 0
            for x in v:
                k = x.shape[ax]
                sl = [slice(None)] * g.ndim
                sl[ax] = slice(s, s + k)
                res.append(g[tuple(sl)].copy())
                s += k
            return res
        if kind == "stack":
            ax = p["axis"]
            return [np.take(g, i, axis=ax).copy() for i in range(len(v))]
        if kind == "setitem":
            old, val = v
            idx = p["index"]
            g0 = g.copy()
            g0[idx] = 0
            # which (broadcast) source element landed in which target element
            sel_shape = np.empty(old.shape, dtype=np.int8)[idx].shape
            src = np.full(old.shape, -1, dtype=np.int64)
            n_sel = int(np.prod(sel_shape)) if len(sel_shape) else 1
            src[idx] = np.arange(n_sel).reshape(sel_shape)
            gb = np.zeros(n_sel)
            m = src >= 0
            gb[src[m]] = g[m]
            gb = gb.reshape(sel_shape)
            # value broadcast to sel_shape (numpy allows extra leading 1-dims on the value)
            vs = val.shape
            if len(vs) > len(sel_shape):
                extra = len(vs) - len(sel_shape)
                gv = gb.reshape((1,) * extra + tuple(sel_shape))
                gv = unbroadcast(gv, vs)
            else:
                gv = unbroadcast(gb, vs)
            return [g0, gv]
        if kind == "maskmerge":
            m = p["mask"]
            return [unbroadcast(np.where(m, g, 0.0), v[0].shape), unbroadcast(np.where(m, 0.0, g), v[1].shape)]
        if kind == "bcast":
            return [unbroadcast(g, v[0].shape)]
        raise TapeError(f"no vjp for {kind}")

    def upstream(self, root, stop_at_severed=True, through_const=False):
        """indices of nodes reachable upward from root (inclusive)"""
        seen = set()
        stack = [root]
        while stack:
            i = stack.pop()
            if i in seen:
                continue
            seen.add(i)
            n = self.nodes[i]
            if n.severed and stop_at_severed:
                continue
            if n.const and not through_const:
                continue
            stack.extend(n.parents)
        return seen

    def sever_upstream(self, root):
        """MyGrad's clear_graph from a tensor: everything upstream loses its creator."""
        seen = set()
        stack = [root]
        while stack:
            i = stack.pop()
            if i in seen:
                continue
            seen.add(i)
            n = self.nodes[i]
            if n.severed:
                n.severed_at = self.clock  # cleared again (e.g. a leaf shared by two graphs)
                continue
            n.severed = True
            n.severed_at = self.clock
            stack.extend(n.parents)
        return seen

    def tainted(self, root):
        """the recorded graph above `root` was partially cleared after it was recorded: some node
        on a live path has a parent that was severed after the child was created"""
        seen = set()
        stack = [root]
        while stack:
            i = stack.pop()
            if i in seen:
                continue
            seen.add(i)
            n = self.nodes[i]
            if n.severed and i != root:
                continue
            if n.severed and i == root:
                # the root itself was cleared (e.g. backward twice): nothing above it is live
                continue
            for p in n.parents:
                q = self.nodes[p]
                if q.severed:
                    if q.severed_at > n.born:
                        return True
                else:
                    stack.append(p)
        return False

    def backward(self, root, seed=None):
        """returns (cot: dict node->array, info) where only non-constant nodes reached from root
        through non-constant, non-severed links appear.  info has nondiff/opaque flags."""
        nodes = self.nodes
        r = nodes[root]
        cot = {}
        info = {"nondiff": False, "opaque": False}
        if r.const:
            return cot, info
        g0 = np.ones(r.val.shape) if seed is None else np.broadcast_to(np.asarray(seed, dtype=np.float64), r.val.shape).copy()
        cot[root] = g0
        reach = self.upstream(root)
        for i in sorted(reach, reverse=True):
            n = nodes[i]
            if n.const:
                continue
            if i not in cot:
                # reachable non-constant node that received nothing (cannot happen: a path exists)
                continue
            if n.nondiff:
                info["nondiff"] = True
            if n.severed or n.kind == "leaf":
                continue
            if n.opaque:
                info["opaque"] = True
                continue
            with np.errstate(all="ignore"):
                contribs = self._vjp(n, cot[i])
            for pi, c in zip(n.parents, contribs):
                if c is None or nodes[pi].const:
                    continue
                c = np.asarray(c, dtype=np.float64)
                if c.size and not np.all(np.isfinite(c)):
                    # a derivative that does not exist as a finite number (cbrt at 0, arccos at 1,
                    # ...): "wherever that derivative exists" does not cover this run
                    info["nondiff"] = True
                if pi in cot:
                    cot[pi] = cot[pi] + c
                else:
                    cot[pi] = c.copy()
        return cot, info

    # ------------------------------------------------------------------ self-validation
    def eval_with(self, overrides, upto):
        """re-evaluate the program with some leaf values replaced; returns value of node `upto`"""
        vals = {}
        need = self.upstream(upto, stop_at_severed=False, through_const=True)
        for i in sorted(need):
            n = self.nodes[i]
            if n.kind in ("leaf", "opaque"):
                vals[i] = overrides.get(i, n.val)
            else:
                vals[i] = np.asarray(self._forward(n.kind, [vals[q] for q in n.parents], n.params), dtype=np.float64)
        return vals[upto]

    def check_against_fd(self, root, h=1e-6, rtol=2e-4, atol=2e-6, max_elems=64):
        """central finite differences on the non-constant leaves upstream of root.
        Ignores `severed` (validates the VJP rules themselves).  Returns list of problems."""
        if self.native_dtype_effects:
            return []
        need = self.upstream(root, stop_at_severed=False, through_const=True)
        for i in need:
            n = self.nodes[i]
            if n.const and n.parents and any(not self.nodes[q].const for q in n.parents):
                return []  # a forced-constant result cuts the gradient: FD would not see the cut
            # a kink within reach of the finite-difference step: nothing to validate against
            v = [self.nodes[q].val for q in n.parents]
            k, p = n.kind, n.params
            eps = 1e-3
            if k == "ew2" and p["fn"] in ("maximum", "minimum") and np.any(np.abs(np.subtract(*np.broadcast_arrays(v[0], v[1]))) < eps):
                return []
            if k == "ew1" and p["fn"] == "abs" and np.any(np.abs(v[0]) < eps):
                return []
            if k == "clip" and ((p["lo"] is not None and np.any(np.abs(v[0] - p["lo"]) < eps)) or (p["hi"] is not None and np.any(np.abs(v[0] - p["hi"]) < eps))):
                return []
            if k == "reduce" and p["fn"] in ("max", "min") and v[0].size > 1:
                srt = np.sort(v[0].ravel())
                if np.any(np.diff(srt) < eps):
                    return []
        saved = [(n, n.severed) for n in self.nodes]
        for n, _ in saved:
            n.severed = False
        try:
            cot, info = self.backward(root)
        finally:
            for n, s in saved:
                n.severed = s
        if info["nondiff"] or info["opaque"]:
            return []
        problems = []
        count = 0
        for i in sorted(cot):
            n = self.nodes[i]
            if n.kind != "leaf" or n.const:
                continue
            for j in range(n.val.size):
                count += 1
                if count > max_elems:
                    return problems
                vp = n.val.copy().ravel()
                vm = vp.copy()
                vp[j] += h
                vm[j] -= h
                fp = self.eval_with({i: vp.reshape(n.val.shape)}, root).sum()
                fm = self.eval_with({i: vm.reshape(n.val.shape)}, root).sum()
                fd = (fp - fm) / (2 * h)
                an = cot[i].ravel()[j]
                if not np.isfinite(fd) or not np.isfinite(an):
                    continue
                # rounding of f(x+h)-f(x-h): intermediate values can be far larger than f itself
                cancel = 16 * 2.2e-16 * max(abs(fp), abs(fm), self.vmax, 1.0) / h
                trunc = 0.0
                if abs(fd - an) > atol + cancel + rtol * max(abs(fd), abs(an)):
                    # steep functions (tan/sec/csch near their poles): estimate the truncation error of
                    # the central difference from a second step size before calling it a disagreement
                    vp2 = n.val.copy().ravel()
                    vm2 = vp2.copy()
                    vp2[j] += 4 * h
                    vm2[j] -= 4 * h
                    f2 = (self.eval_with({i: vp2.reshape(n.val.shape)}, root).sum() - self.eval_with({i: vm2.reshape(n.val.shape)}, root).sum()) / (8 * h)
                    trunc = abs(f2 - fd) if np.isfinite(f2) else np.inf  # ~ 15x the h^2 term of fd itself
                # (factor 2: a jump inside the stencil - arctan2 across its branch cut - makes both
                # difference quotients huge and proportional to 1/h; that is not a disagreement)
                if abs(fd - an) > atol + cancel + 2 * trunc + rtol * max(abs(fd), abs(an)):
                    problems.append((i, j, float(fd), float(an)))
        return problems
