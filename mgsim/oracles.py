"""Oracles as observers of the world (DESIGN 2.6).  Each reports through world.violation(property,
oracle_id, message, tag).  The tag is computed from semantic facts of the failure so that the same
defect maps to the same tag from any seed (DESIGN 2.10)."""
import gc
import weakref

import numpy as np

from . import env
from .world import Tensor, is_float

mg = env.mg
_track = env._track
_mem = env._mem


class Observer:
    needs_ops = False

    def attach(self, w):
        pass

    def before(self, w, ev):
        pass

    def after(self, w, ev, out):
        pass

    def scope_event(self, w, what, name):
        pass

    def before_quiescence(self, w):
        pass

    def at_quiescence(self, w, held_arrays, orig, entered):
        pass


# ======================================================================================
# C08 - memory guard (M3)
# ======================================================================================
class LockOracle(Observer):
    needs_ops = True

    def attach(self, w):
        self.cleared = {}  # id(tensor) -> (weakref, clock)
        self.pending_clear = None

    # -- taint bookkeeping --------------------------------------------------------------
    def before(self, w, ev):
        if ev["k"] in ("backward", "clear") and ev["tgt"] in w.T and w.tracking:
            t = w.T[ev["tgt"]]
            seen = {}
            stack = [t]
            while stack:
                x = stack.pop()
                if id(x) in seen:
                    continue
                seen[id(x)] = weakref.ref(x)
                c = x.creator
                if c is not None:
                    stack.extend(c.variables)
            self.pending_clear = seen
            del t, stack
        else:
            self.pending_clear = None

    def _apply_clear(self, w, ev, out):
        if self.pending_clear is None:
            return
        if out.status == "ok":
            for k, r in self.pending_clear.items():
                self.cleared[k] = (r, w.clock)
        self.pending_clear = None
        # drop dead entries
        for k in [k for k, (r, _) in self.cleared.items() if r() is None]:
            del self.cleared[k]

    def _is_tainted(self, w, key, rec):
        if rec.tainted:
            return True
        # any tensor upstream of the op cleared after the op was recorded?
        seen = set()
        stack = [r() for r in rec.tensors]
        o = rec.out_ref() if rec.out_ref is not None else None
        if o is not None:
            stack.append(o)
        while stack:
            x = stack.pop()
            if x is None or id(x) in seen:
                continue
            seen.add(id(x))
            ent = self.cleared.get(id(x))
            if ent is not None and ent[0]() is x and ent[1] > rec.at:
                rec.tainted = True
                return True
            c = x.creator
            if c is not None:
                stack.extend(c.variables)
        return False

    # -- the oracle -----------------------------------------------------------------------
    def after(self, w, ev, out):
        self._apply_clear(w, ev, out)
        self.check(w, ev)

    def _held(self, w):
        held = []
        for ha, a in w.A.items():
            held.append((("A", ha), a, w.a_orig.get(ha), w.a_entered.get(ha), w.a_kind.get(ha, "?") + "/origin=" + w.a_origin.get(ha, "?")))
        for h, t in w.T.items():
            i = w.info[h]
            held.append((("T", h), t.data, i.orig_w, i.entered, "tdata/origin=" + i.made_by))
        return held

    def check(self, w, ev, quiescent=False, held=None):
        held = self._held(w) if held is None else held
        live = []
        for key, rec in w.oprecs.items():
            op = rec.ref()
            if op is None:
                continue
            arrs = [r() for r in rec.arrs]
            reach = key in getattr(w, "reachable_ops", ())
            live.append((key, rec, arrs, reach))
        for hk, a, orig, entered, kind in held:
            if kind.startswith("grad"):
                continue
            origin = kind.split("origin=")[-1]
            must_lock = None
            referred = False
            referred_unreachable = None
            for key, rec, arrs, reach in live:
                hit_direct = False
                hit_any = False
                for x in arrs:
                    if x is None:
                        continue
                    if x is a or x.base is a:
                        hit_direct = True
                        hit_any = True
                        break
                    if a.base is not None and (a.base is x or a.base is x.base):
                        hit_any = True
                if hit_any and reach:
                    referred = True
                elif hit_any:
                    referred_unreachable = rec.name
                if hit_direct and reach and rec.guard_on and must_lock is None:
                    if not self._is_tainted(w, key, rec):
                        must_lock = rec.name
            wr = bool(a.flags.writeable)
            if must_lock is not None:
                if wr:
                    if w.violation(
                        "C08",
                        "C08.must_be_locked",
                        f"step {w.nstep} ({ev.get('k') if ev else 'end'}): array {hk} is an input/output (or base of one) of live op {must_lock} recorded with the guard on, but is writeable",
                        tag=f"C08.must_be_locked/op={must_lock}/holder={kind.split('/')[0]}/ev={self._evtag(ev)}",
                    ):
                        return
                    continue
                w.probe("c08.locked_ok")
            elif not referred:
                if orig is False and wr:
                    if w.violation(
                        "C08",
                        "C08.never_promoted",
                        f"step {w.nstep}: array {hk} was read-only beforehand but is now writeable",
                        tag=f"C08.never_promoted/origin={origin}/holder={kind.split('/')[0]}/ev={self._evtag(ev)}",
                    ):
                        return
                    continue
                if entered and orig is True and not wr:
                    extra = f" (still referenced by unreachable live op {referred_unreachable}: leak)" if referred_unreachable else ""
                    if w.violation(
                        "C08",
                        "C08.must_be_restored",
                        f"step {w.nstep} ({ev.get('k') if ev else 'end'}): no live graph refers to array {hk}, yet it is still read-only{extra}",
                        tag=f"C08.must_be_restored/origin={origin}/holder={kind.split('/')[0]}/ev={self._evtag(ev)}" + ("/leak" if referred_unreachable else ""),
                    ):
                        return
                    continue
                if entered and orig is True:
                    w.probe("c08.restored_ok")
            else:
                w.probe("c08.dont_care")
                if orig is False and wr:
                    if w.violation(
                        "C08",
                        "C08.never_promoted",
                        f"step {w.nstep}: array {hk} was read-only beforehand but is now writeable",
                        tag=f"C08.never_promoted/origin={origin}/holder={kind.split('/')[0]}/ev={self._evtag(ev)}",
                    ):
                        return
                    continue

    @staticmethod
    def _evtag(ev):
        if not ev:
            return "quiescence"
        k = ev["k"]
        if k == "inplace":
            return "inplace:" + ev["form"] + (":masked" if ev.get("where") is not None else "")
        if k == "op":
            return "op" + (":out_arr" if ev.get("out_arr") is not None else "") + (":fail" if ev.get("fail") or ev.get("kf") else "")
        return k

    def at_quiescence(self, w, held_arrays, orig, entered):
        held = [(("A", ha), a, orig.get(ha), entered.get(ha), w.a_kind.get(ha, "?") + "/origin=" + w.a_origin.get(ha, "?")) for ha, a in held_arrays.items()]
        w.reachable_ops = set()
        self.check(w, None, quiescent=True, held=held)
        # lock-table hygiene is a probe, not an oracle (DESIGN C08 don't-care)
        if _mem._array_counter:
            w.probe("c08.table_entries_left_at_quiescence")
