"""Oracles as observers of the world (DESIGN 2.6).  Each reports through world.violation(property,
oracle_id, message, tag).  The tag is computed from semantic facts of the failure so that the same
defect maps to the same tag from any seed (DESIGN 2.10)."""
import gc
import weakref

import numpy as np

from . import env
from .world import Tensor, is_float

mg = env.mg
_track = env._track
_mem = env._mem


class Observer:
    needs_ops = False

    def attach(self, w):
        pass

    def before(self, w, ev):
        pass

    def after(self, w, ev, out):
        pass

    def scope_event(self, w, what, name):
        pass

    def before_quiescence(self, w):
        pass

    def at_quiescence(self, w, held_arrays, orig, entered):
        pass


# ======================================================================================
# C08 - memory guard (M3)
# ======================================================================================
class LockOracle(Observer):
    needs_ops = True

    def __init__(self, prop="C08", only_after_failure=False):
        self.prop = prop
        self.only_after_failure = only_after_failure

    def attach(self, w):
        self.cleared = {}  # id(tensor) -> (weakref, clock)
        self.pending_clear = None

    # -- taint bookkeeping --------------------------------------------------------------
    def before(self, w, ev):
        if ev["k"] in ("backward", "clear") and ev["tgt"] in w.T and w.tracking:
            t = w.T[ev["tgt"]]
            seen = {}
            stack = [t]
            while stack:
                x = stack.pop()
                if id(x) in seen:
                    continue
                seen[id(x)] = weakref.ref(x)
                c = x.creator
                if c is not None:
                    stack.extend(c.variables)
            self.pending_clear = seen
            del t, stack
        else:
            self.pending_clear = None

    def _apply_clear(self, w, ev, out):
        if self.pending_clear is None:
            return
        if out.status == "ok":
            for k, r in self.pending_clear.items():
                self.cleared[k] = (r, w.clock)
        self.pending_clear = None
        # drop dead entries
        for k in [k for k, (r, _) in self.cleared.items() if r() is None]:
            del self.cleared[k]

    def _is_tainted(self, w, key, rec):
        if rec.tainted:
            return True
        # any tensor upstream of the op cleared after the op was recorded?
        seen = set()
        stack = [r() for r in rec.tensors]
        o = rec.out_ref() if rec.out_ref is not None else None
        if o is not None:
            stack.append(o)
        while stack:
            x = stack.pop()
            if x is None or id(x) in seen:
                continue
            seen.add(id(x))
            ent = self.cleared.get(id(x))
            if ent is not None and ent[0]() is x and ent[1] > rec.at:
                rec.tainted = True
                return True
            c = x.creator
            if c is not None:
                stack.extend(c.variables)
        return False

    # -- the oracle -----------------------------------------------------------------------
    def after(self, w, ev, out):
        self._apply_clear(w, ev, out)
        if self.only_after_failure and out.status not in ("fail", "unexp"):
            return
        self.check(w, ev)

    def _held(self, w):
        held = []
        for ha, a in w.A.items():
            held.append((("A", ha), a, w.a_orig.get(ha), w.a_entered.get(ha), w.a_kind.get(ha, "?") + "/origin=" + w.a_origin.get(ha, "?")))
        for h, t in w.T.items():
            i = w.info[h]
            held.append((("T", h), t.data, i.orig_w, i.entered, "tdata/origin=" + i.made_by))
        return held

    def check(self, w, ev, quiescent=False, held=None):
        held = self._held(w) if held is None else held
        live = []
        for key, rec in w.oprecs.items():
            op = rec.ref()
            if op is None:
                continue
            arrs = [r() for r in rec.arrs]
            bases = [r() for r in rec.bases]
            reach = key in getattr(w, "reachable_ops", ())
            live.append((key, rec, arrs, reach, bases))
        for hk, a, orig, entered, kind in held:
            if kind.startswith("grad"):
                continue
            origin = kind.split("origin=")[-1]
            must_lock = None
            referred = False
            referred_unreachable = None
            for key, rec, arrs, reach, bases in live:
                hit_direct = False
                hit_any = False
                for xb in bases:
                    if xb is not None and (xb is a or (a.base is not None and a.base is xb)):
                        hit_any = True
                        if xb is a:
                            hit_direct = True
                for x in arrs:
                    if x is None:
                        continue
                    if x is a or x.base is a:
                        hit_direct = True
                        hit_any = True
                        break
                    if a.base is not None and (a.base is x or a.base is x.base):
                        hit_any = True
                if hit_any and reach:
                    referred = True
                elif hit_any:
                    referred_unreachable = rec.name
                if hit_direct and reach and rec.guard_on and must_lock is None:
                    if not self._is_tainted(w, key, rec):
                        must_lock = rec.name
            wr = bool(a.flags.writeable)
            if must_lock is not None:
                if wr and not self.only_after_failure:
                    if w.violation(
                        self.prop,
                        f"{self.prop}.must_be_locked",
                        f"step {w.nstep} ({ev.get('k') if ev else 'end'}): array {hk} is an input/output (or base of one) of live op {must_lock} recorded with the guard on, but is writeable",
                        tag=f"{self.prop}.must_be_locked/op={must_lock}/holder={kind.split('/')[0]}/ev={self._evtag(ev)}",
                    ):
                        return
                    continue
                w.probe("c08.locked_ok")
            elif not referred:
                if orig is False and wr and not self.only_after_failure:
                    if w.violation(
                        self.prop,
                        f"{self.prop}.never_promoted",
                        f"step {w.nstep}: array {hk} was read-only beforehand but is now writeable",
                        tag=f"{self.prop}.never_promoted/origin={origin}/holder={kind.split('/')[0]}/ev={self._evtag(ev)}",
                    ):
                        return
                    continue
                if entered and orig is True and not wr:
                    extra = f" (still referenced by unreachable live op {referred_unreachable}: leak)" if referred_unreachable else ""
                    if w.violation(
                        self.prop,
                        f"{self.prop}.must_be_restored",
                        f"step {w.nstep} ({ev.get('k') if ev else 'end'}): no live graph refers to array {hk}, yet it is still read-only{extra}",
                        tag=f"{self.prop}.must_be_restored/origin={origin}/holder={kind.split('/')[0]}/ev={self._evtag(ev)}" + ("/leak" if referred_unreachable else "") + ("/after_graph_cycle" if w.graph_cycle_seen else ""),
                    ):
                        return
                    continue
                if entered and orig is True:
                    w.probe("c08.restored_ok")
            else:
                w.probe("c08.dont_care")
                if orig is False and wr and not self.only_after_failure:
                    if w.violation(
                        self.prop,
                        f"{self.prop}.never_promoted",
                        f"step {w.nstep}: array {hk} was read-only beforehand but is now writeable",
                        tag=f"{self.prop}.never_promoted/origin={origin}/holder={kind.split('/')[0]}/ev={self._evtag(ev)}",
                    ):
                        return
                    continue

    @staticmethod
    def _evtag(ev):
        if not ev:
            return "quiescence"
        k = ev["k"]
        if k == "inplace":
            return "inplace:" + ev["form"] + (":masked" if ev.get("where") is not None else "")
        if k == "op":
            return "op" + (":out_arr" if ev.get("out_arr") is not None else "") + (":fail" if ev.get("fail") or ev.get("kf") else "")
        return k

    def at_quiescence(self, w, held_arrays, orig, entered):
        if self.only_after_failure:
            return
        held = [(("A", ha), a, orig.get(ha), entered.get(ha), w.a_kind.get(ha, "?") + "/origin=" + w.a_origin.get(ha, "?")) for ha, a in held_arrays.items()]
        w.reachable_ops = set()
        self.check(w, None, quiescent=True, held=held)
        # lock-table hygiene is a probe, not an oracle (DESIGN C08 don't-care)
        if _mem._array_counter:
            w.probe("c08.table_entries_left_at_quiescence")


# ======================================================================================
# numeric policy (DESIGN 2.6)
# ======================================================================================
_EPS_FACTOR = {"float64": 1e5, "float32": 1e4, "float16": 100}


def close(actual, expected, exact, scale=1.0, dtype=None):
    """comparison of a MyGrad gradient/value with the model's float64 expectation"""
    a = np.asarray(actual)
    e = np.asarray(expected)
    if a.shape != e.shape:
        return False
    if a.size == 0:
        return True
    if not np.all(np.isfinite(e)):
        return True  # the model itself left the finite domain: nothing asserted
    if exact and a.dtype == np.float64:
        if np.array_equal(a, e):
            return True
        if np.all(e == np.round(e)) and np.max(np.abs(e)) < 2.0**50:
            return False  # certified exact: integer-valued expectation, any difference is real
        # not integer-valued (an inexact statement slipped into an "exact" run): tolerance
    dt_ = np.dtype(dtype or a.dtype)
    if dt_.kind != "f":
        return bool(np.array_equal(a, e))
    eps = float(np.finfo(dt_).eps)
    tol = eps * _EPS_FACTOR.get(dt_.name, 1e5)
    a64 = a.astype(np.float64)
    return bool(np.all(np.abs(a64 - e) <= tol * (scale + np.abs(e))))


class GradOracle(Observer):
    """after every successful backward(): every caller-held tensor's .grad equals the M2 expectation
    (owners: total cotangent of the current version; views: the view of the owner's gradient;
    constants: None; tensors L does not depend on: unchanged).  Used by C01/C05/C07/C10."""

    def __init__(self, prop, judge_keep=True, name=None):
        self.prop = prop
        self.judge_keep = judge_keep
        self.name = name or prop

    def after(self, w, ev, out):
        if ev["k"] != "backward":
            return
        rec = w.last_backward
        if rec is None or rec.get("h") != ev["tgt"]:
            return
        if out.status == "unexp":
            if rec.get("tainted") is False and "model_error" not in rec and not w.grad_poisoned and not getattr(self, "_aborted_before", False):
                lay = rec.get("layers") or []
                via = "gru" if "gru" in lay else (",".join(lay) or "plain")
                w.violation(
                    self.prop,
                    f"{self.name}.backward_raised",
                    f"step {w.nstep}: backward() on a fully recorded graph raised {out.exc}: {out.msg[:200]}",
                    tag=f"{self.name}.backward_raised/{out.exc}/via={via}",
                )
            self._aborted_before = True
            return
        if out.status == "fail" and out.exc == "InvalidBackprop":
            if rec.get("tainted") is False and "model_error" not in rec and not w.grad_poisoned and not getattr(self, "_aborted_before", False):
                w.violation(
                    self.prop,
                    f"{self.name}.invalid_backprop_on_intact_graph",
                    f"step {w.nstep}: backward() raised InvalidBackprop although no part of the graph had been cleared",
                    tag=f"{self.name}.invalid_backprop_on_intact_graph",
                )
            self._aborted_before = True
            return
        if out.status != "ok" or not rec.get("tracking"):
            return
        exp = rec.get("expected")
        if exp is None:
            w.count("grad.unjudged.model")
            return
        if rec.get("tainted"):
            w.count("grad.unjudged.tainted")
            return
        if w.grad_poisoned:
            w.count("grad.unjudged.poisoned")
            return
        w.probe("grad.judged_backward")
        values_ok = not (rec.get("nondiff") or rec.get("opaque"))
        if not values_ok:
            w.count("grad.values_unjudged.nondiff_or_opaque")
        scale = rec.get("scale", 1.0)
        for k, t in w.T.items():
            e = exp.get(k)
            if e is None:
                continue
            g = w.read_grad(t, k)
            i = w.info[k]
            if i.stale and t.base is not None:
                continue  # a view left over from a cleared family reads its old base's gradient
            role = "view" if (k in rec["pre_ids"]) else "owner"
            if e[0] == "none":
                if g is not None:
                    w.violation(
                        self.prop,
                        f"{self.name}.grad_on_constant" if i.const else f"{self.name}.unexpected_grad",
                        f"step {w.nstep}: handle {k} ({'constant' if i.const else 'non-constant'} {role}) has a gradient {np.asarray(g).tolist()!r:.120} where none is expected",
                        tag=f"{self.name}.{'grad_on_constant' if i.const else 'unexpected_grad'}/{role}/made_by={i.made_by}",
                    )
                    return
            elif e[0] == "keep":
                if not self.judge_keep:
                    continue
                pre = rec["pre_grads"].get(k)
                same = (g is None and pre is None) or (g is not None and pre is not None and np.asarray(g).tobytes() == pre[1] and np.asarray(g).shape == pre[3])
                if not same and g is None and i.stale:
                    # a view left over from a cleared family: its gradient is the view of its old
                    # base's gradient and reads None once that gradient is replaced (C07)
                    w.probe("grad.stale_view_grad_gone")
                    continue
                if not same:
                    w.violation(
                        self.prop,
                        f"{self.name}.bystander_changed",
                        f"step {w.nstep}: handle {k} ({role}) is not upstream of the terminal but its gradient changed",
                        tag=f"{self.name}.bystander_changed/{role}",
                    )
                    return
            else:
                if g is None:
                    w.violation(
                        self.prop,
                        f"{self.name}.missing_grad",
                        f"step {w.nstep}: handle {k} ({role}) is a non-constant tensor the terminal depends on but .grad is None",
                        tag=f"{self.name}.missing_grad/{role}",
                    )
                    return
                if not values_ok:
                    continue
                ga = np.asarray(g)
                if ga.shape != e[1].shape or not close(ga, e[1], w.exact and w.tape.integer_valued, scale, dtype=w.tol_dtype):
                    w.violation(
                        self.prop,
                        f"{self.name}.wrong_grad",
                        f"step {w.nstep}: handle {k} ({role}) grad={ga.tolist()!r:.200} expected={np.asarray(e[1]).tolist()!r:.200}",
                        tag=f"{self.name}.wrong_grad/{role}",
                    )
                    return
                w.probe("grad.value_ok")
            del g


# ======================================================================================
# C04 - views and in-place updates mirror NumPy (M1)
# ======================================================================================
def _bytes_equal(a, b):
    a = np.asarray(a)
    b = np.asarray(b)
    if a.shape != b.shape or a.dtype != b.dtype:
        return False
    return bool(np.array_equal(a, b, equal_nan=True)) if a.dtype.kind == "f" else bool(np.array_equal(a, b))


class ValueOracle(Observer):
    """after every statement, every judged handle (family entirely created in the current epoch):
    value/dtype/shape = shadow, pairwise sharing = shadows', .base = owner, identity, constant."""

    def __init__(self, prop="C04"):
        self.prop = prop

    def after(self, w, ev, out):
        k = ev["k"]
        hs = [h for h in w.T if w.judged04(h)]
        if not hs:
            return
        if out.status == "unexp" and k in ("op", "inplace", "setshape"):
            tgt = ev.get("tgt")
            srcs = [r["t"] for r in ev.get("args", []) if "t" in r] + ([tgt] if tgt is not None else [])
            if srcs and all(w.judged04(x) for x in srcs if x in w.T) and w.tracking and not w.aborted_backward:
                w.violation(
                    self.prop,
                    "C04.statement_raised",
                    f"step {w.nstep}: a statement NumPy accepts raised {out.exc} inside one epoch: {out.msg[:160]}",
                    tag=f"C04.statement_raised/{out.exc}/{k}:{ev.get('form') or ev.get('op') or ''}",
                )
            return
        evt = k + (":" + (ev.get("form") or ev.get("op") or "")) if k in ("op", "inplace", "setshape") else k
        for h in hs:
            t = w.T[h]
            s = w.S[h]
            i = w.info[h]
            if i.ref() is not t:
                w.violation(self.prop, "C04.identity", f"step {w.nstep}: handle {h} no longer refers to the same object")
                return
            d = t.data
            if d.shape != s.shape or d.dtype != s.dtype:
                if w.violation(self.prop, "C04.shape_dtype", f"step {w.nstep} ({evt}): handle {h} has shape/dtype {d.shape}/{d.dtype}, NumPy gives {s.shape}/{s.dtype}", tag=f"C04.shape_dtype/{evt}"):
                    return
                continue
            if not _bytes_equal(d, s):
                if w.violation(self.prop, "C04.value", f"step {w.nstep} ({evt}): handle {h} holds {d.tolist()!r:.160}, NumPy gives {s.tolist()!r:.160}", tag=f"C04.value/{evt}"):
                    return
                continue
            if t.constant is not i.const:
                if w.violation(self.prop, "C04.constant_flag", f"step {w.nstep} ({evt}): handle {h} constant={t.constant}, expected {i.const}", tag=f"C04.constant_flag/{evt}"):
                    return
            # base
            b = t.base
            if i.ids is None:
                # (a composite such as multi_matmul may hand out a view of an internal result, as its
                # NumPy namesake does: then .base is that hidden tensor, the owner of the memory)
                hidden_owner = b is not None and d.base is not None and b.base is None and b.data.size and np.shares_memory(b.data, d) and not any(b is x for x in w.T.values())
                if b is not None and not hidden_owner:
                    if w.violation(self.prop, "C04.base", f"step {w.nstep} ({evt}): handle {h} owns its memory but .base is not None", tag=f"C04.base/owner_has_base/{evt}"):
                        return
            else:
                o = i.fam.owner_ref() if i.fam.owner_ref is not None else None
                if b is None or (o is not None and b is not o):
                    if d.size > 0:
                        same = b is None and any(x is not t and x.data is d for x in w.T.values())
                        if same:
                            # NumPy handed back the operand array itself (squeeze with nothing to
                            # squeeze, also when MyGrad replays the view after an in-place update):
                            # listed finding; its consequences (values, sharing) are not judged
                            # again in this run
                            r = w.violation(self.prop, "C04.base", f"step {w.nstep} ({evt}): handle {h} wraps the very array of another tensor but .base is None", tag=f"C04.base/view_wrong_base/{evt}/same_array_object")
                            for ki in w.info.values():
                                ki.foreign = True
                            w.grad_poisoned = True
                            if r:
                                return
                            return
                        if w.violation(self.prop, "C04.base", f"step {w.nstep} ({evt}): handle {h} is a view but .base is {'None' if b is None else 'a different tensor'}", tag=f"C04.base/view_wrong_base/{evt}"):
                            return
            del b
        # pairwise sharing
        n = len(hs)
        for x in range(n):
            for y in range(x + 1, n):
                a, b = hs[x], hs[y]
                da, db = w.T[a].data, w.T[b].data
                if da.size == 0 or db.size == 0:
                    continue
                real = np.shares_memory(da, db)
                shad = np.shares_memory(w.S[a], w.S[b])
                if real != shad:
                    if w.violation(
                        self.prop,
                        "C04.sharing",
                        f"step {w.nstep} ({evt}): handles {a},{b} share memory={real} but the NumPy arrays share={shad}",
                        tag=f"C04.sharing/{'missing' if shad else 'spurious'}/{evt}",
                    ):
                        return
        w.probe("c04.checked_events")


class TapeValueOracle(Observer):
    """every caller-held float tensor holds the value of its current version in the equivalent
    functional program (M2) - after every statement."""

    def __init__(self, prop):
        self.prop = prop

    def after(self, w, ev, out):
        if ev["k"] not in ("op", "inplace", "setshape", "leaf") or out.status not in ("ok",):
            return
        if w.grad_poisoned:
            return
        tp = w.tape
        for h, t in w.T.items():
            i = w.info[h]
            n = tp.nodes[i.nid]
            if n.opaque or not is_float(t.dtype):
                continue
            e = n.val
            d = t.data
            if d.shape != e.shape:
                if w.violation(self.prop, f"{self.prop}.value_shape", f"step {w.nstep}: handle {h} has shape {d.shape}, functional program gives {e.shape}", tag=f"{self.prop}.value_shape/{ev['k']}:{ev.get('form') or ev.get('op') or ''}"):
                    return
                continue
            if not close(d, e, w.exact and tp.integer_valued, tp.vmax, dtype=w.tol_dtype):
                if w.violation(
                    self.prop,
                    f"{self.prop}.value",
                    f"step {w.nstep} ({ev['k']}:{ev.get('form') or ev.get('op') or ''}): handle {h} holds {d.tolist()!r:.160}; the functional program gives {e.tolist()!r:.160}",
                    tag=f"{self.prop}.value/{ev['k']}:{ev.get('form') or ev.get('op') or ''}",
                ):
                    return


class CrossScheduleOracle(Observer):
    """C01: the same dataflow DAG executed under several schedules yields the same gradients for
    every corresponding tensor (bit-exact when the run is certified exact) and the same values."""

    def __init__(self, prop="C01", skip_above=900):
        self.prop = prop
        self.skip_above = skip_above

    def attach(self, w):
        self.ref = None  # schedule 0: logical handle -> (grad array or None, data)

    def after(self, w, ev, out):
        if ev["k"] != "sched_end":
            return
        rec = w.last_backward
        if rec is None or rec.get("status") != "ok":
            return
        off = ev["off"]
        cur = {}
        for h, t in w.T.items():
            if off <= h < off + self.skip_above:
                g = w.read_grad(t, h)
                e = (rec.get("expected") or {}).get(h)
                mv = w.tape.val(w.info[h].nid)
                cur[h - off] = (None if g is None else np.array(g, copy=True), np.array(t.data, copy=True), w.info[h].const, e, mv)
        if self.ref is None:
            self.ref = (cur, bool(rec.get("nondiff")))
            return
        ref, ref_nd = self.ref
        nd = ref_nd or bool(rec.get("nondiff"))
        for lh, (g, d, c, e, mv) in cur.items():
            if lh not in ref:
                continue
            g0, d0, c0, e0, mv0 = ref[lh]
            # the two schedules must still be the same program according to the model (a shrunk
            # history may have lost statements of one schedule only): otherwise nothing to compare
            if mv.shape != mv0.shape or not close(mv, mv0, False, w.tape.vmax):
                continue
            if e is None or e0 is None or e[0] != e0[0]:
                continue
            if e[0] == "val" and (np.shape(e[1]) != np.shape(e0[1]) or not close(np.asarray(e[1]), np.asarray(e0[1]), False, rec.get("scale", 1.0))):
                continue
            if not _bytes_equal(d, d0):
                # sequences may re-associate: values are compared bit-exactly only on certified
                # exact runs, otherwise against the largest magnitude seen in the run (cancellation)
                if (w.exact and w.tape.integer_valued) or not close(d, d0.astype(np.float64), False, w.tape.vmax, dtype=w.tol_dtype):
                    if w.violation(self.prop, f"{self.prop}.schedule_value", f"step {w.nstep}: logical tensor {lh} has different values under schedule {ev['j']}", tag=f"{self.prop}.schedule_value"):
                        return
            if (g is None) != (g0 is None):
                if w.violation(self.prop, f"{self.prop}.schedule_grad_presence", f"step {w.nstep}: logical tensor {lh}: grad is {'None' if g is None else 'set'} under schedule {ev['j']} but {'None' if g0 is None else 'set'} under schedule 0", tag=f"{self.prop}.schedule_grad_presence"):
                    return
                continue
            if g is None or nd:
                continue
            sc = max(1.0, float(np.max(np.abs(g0))) if g0.size else 1.0, rec.get("scale", 1.0)) * max(1.0, w.tape.vmax)
            ok = np.array_equal(g, g0) if (w.exact and w.tape.integer_valued and g.dtype == np.float64) else close(g, g0.astype(np.float64), False, sc, dtype=w.tol_dtype)
            if not ok:
                if w.violation(
                    self.prop,
                    f"{self.prop}.schedule_grad",
                    f"step {w.nstep}: logical tensor {lh}: gradient {g.tolist()!r:.120} under schedule {ev['j']} differs from {g0.tolist()!r:.120} under schedule 0",
                    tag=f"{self.prop}.schedule_grad",
                ):
                    return
        w.probe("c01.cross_schedule_ok")


# ======================================================================================
# C06 - a view's gradient is the view of its base's gradient
# ======================================================================================
class ViewGradOracle(Observer):
    """window: from a successful backward() until the next statement that uses tensors.  For every
    caller-held non-constant view v that was a member of its family before the call:
    base.grad is not None => v.grad is not None, equals the view chain applied to base.grad
    (bit-exact), shares memory with it; re-reading agrees; over all pairs of handles
    shares(grad_i, grad_j) => shares(data_i, data_j)."""

    PASSIVE = ("readgrad", "drop", "gc", "sched", "sched_end", "grab")

    def attach(self, w):
        self.window = None

    def after(self, w, ev, out):
        k = ev["k"]
        if k == "backward":
            rec = w.last_backward
            if out.status == "ok" and rec and rec.get("tracking") and not rec.get("tainted") and rec.get("expected") is not None:
                self.window = {"members": {h: ids for h, ids in rec["pre_member_ids"].items()}, "n": 0}
                self.check(w, ev)
            else:
                self.window = None
            return
        if self.window is None:
            return
        if k in self.PASSIVE:
            if k == "readgrad":
                self.check(w, ev, only=ev.get("hs"))
            return
        self.window = None

    def check(self, w, ev, only=None):
        mem = self.window["members"]
        hs = [h for h in (only if only is not None else sorted(mem)) if h in mem and h in w.T]
        for h in hs:
            v = w.T[h]
            if w.info[h].const:
                continue
            b = v.base
            if b is None:
                continue  # the link was dropped (a later use); nothing to compare with
            bg = w.read_grad(b, "base")
            if bg is None:
                continue
            n_err = len(w.grad_read_errors)
            g1 = w.read_grad(v, h)
            g2 = w.read_grad(v, h)
            if len(w.grad_read_errors) > n_err:
                e = w.grad_read_errors[-1]
                if w.violation("C06", "C06.view_grad_raises", f"step {w.nstep}: reading .grad of view handle {h} raised {e[2]}: {e[3]}", tag=f"C06.view_grad/raises/{e[2]}"):
                    return
                continue
            if g1 is None:
                if w.violation("C06", "C06.view_grad_missing", f"step {w.nstep}: view handle {h}: base.grad is available but view.grad is None", tag="C06.view_grad/missing"):
                    return
                continue
            if g1 is not g2 and not (np.array_equal(g1, g2, equal_nan=True) and np.shares_memory(g1, g2)):
                if w.violation("C06", "C06.view_grad_unstable", f"step {w.nstep}: view handle {h}: two reads of .grad disagree", tag="C06.view_grad/unstable"):
                    return
            ids = mem[h]
            expect = np.asarray(bg).reshape(-1)[ids] if ids.size else np.zeros(ids.shape)
            if g1.shape != expect.shape or not np.array_equal(g1, expect, equal_nan=True):
                if w.violation(
                    "C06",
                    "C06.view_grad_value",
                    f"step {w.nstep}: view handle {h}: grad {np.asarray(g1).tolist()!r:.120} is not the view of base.grad {np.asarray(expect).tolist()!r:.120}",
                    tag="C06.view_grad/value",
                ):
                    return
                continue
            if g1.size and not np.shares_memory(g1, bg):
                if w.violation("C06", "C06.view_grad_not_shared", f"step {w.nstep}: view handle {h}: grad equals the view of base.grad but does not share memory with it", tag="C06.view_grad/not_shared"):
                    return
                continue
            w.probe("c06.view_grad_ok")
            if not bg.flags.c_contiguous:
                w.probe("c06.base_grad_noncontiguous")
            del g1, g2, bg, b
        # grads of tensors that do not share memory never share memory
        items = [(h, t) for h, t in w.T.items()]
        for x in range(len(items)):
            hx, tx = items[x]
            gx = w.read_grad(tx, hx)
            if gx is None or gx.size == 0:
                continue
            for y in range(x + 1, len(items)):
                hy, ty = items[y]
                gy = w.read_grad(ty, hy)
                if gy is None or gy.size == 0:
                    continue
                if np.shares_memory(gx, gy) and not np.shares_memory(tx.data, ty.data):
                    if w.violation("C06", "C06.grad_alias", f"step {w.nstep}: handles {hx},{hy} do not share data memory but their gradients share memory", tag="C06.grad_alias"):
                        return


# ======================================================================================
# C09 - backprop through a partially cleared graph
# ======================================================================================
class PartialClearOracle(Observer):
    """backward() on a terminal whose recorded graph was partially cleared must raise
    InvalidBackprop, or write exactly the gradients of the forward computation as recorded."""

    def attach(self, w):
        self.mutated_since_clear = set()
        self.aborted_before = False
        self.cleared_once = False
        self.reused = set()  # handles used as operands after some clear

    def after(self, w, ev, out):
        k = ev["k"]
        if k in ("backward", "clear") and out.status == "ok":
            self.cleared_once = True
        if self.cleared_once and out.status == "ok" and k in ("op", "inplace", "terminal"):
            for r in ev.get("args", []):
                if "t" in r:
                    self.reused.add(r["t"])
            for hh, _ in ev.get("terms", []):
                self.reused.add(hh)
        if k == "inplace" and out.status == "ok" and ev["tgt"] in w.info:
            self.mutated_since_clear.update(w.info[ev["tgt"]].fam.members)
        if k != "backward":
            return
        rec = w.last_backward
        if rec is None or rec.get("h") != ev["tgt"] or not rec.get("tracking"):
            return
        if not rec.get("tainted"):
            w.count("c09.untainted_backward")
            return
        w.probe("c09.tainted_backward")
        if out.status == "fail" and out.exc == "InvalidBackprop":
            w.probe("c09.invalid_backprop")
            self.aborted_before = True
            return
        if out.status in ("unexp", "fail"):
            w.violation(
                "C09",
                "C09.other_exception",
                f"step {w.nstep}: backward() on a partially cleared graph raised {out.exc} (neither InvalidBackprop nor success): {out.msg[:120]}",
                tag=f"C09.other_exception/{out.exc}" + ("/after_aborted_backward" if self.aborted_before else ""),
            )
            self.aborted_before = True
            return
        if out.status != "ok":
            return
        exp = rec.get("expected")
        if exp is None or w.grad_poisoned:
            return
        w.probe("c09.tainted_backward_succeeded")
        values_ok = not (rec.get("nondiff") or rec.get("opaque"))
        for h, t in w.T.items():
            if h in rec["pre_ids"] or h not in exp:
                continue  # live views are judged through their bases
            was_cleared = h in rec["pre_severed"]  # (before this call)
            if t.base is not None and not was_cleared:
                continue  # a never-cleared view whose family MyGrad has half-forgotten still reads its base's gradient
            g = w.read_grad(t, h)
            pre = rec["pre_grads"].get(h)
            if g is None:
                if exp[h][0] == "val" and was_cleared:
                    # the traversal reached this cleared tensor (it is a direct input of a recorded
                    # op): a silent success must have given it the recorded gradient
                    if w.violation(
                        "C09",
                        "C09.silent_missing_grad",
                        f"step {w.nstep}: backward() through a partially cleared graph returned without error, but handle {h}, a cleared tensor that the terminal's recorded graph consumes directly, has no gradient",
                        tag="C09.silent_missing_grad/" + ("mutated_after_clear/" if self.mutated_since_clear else "no_inplace_update/") + ("lingering_base" if t.base is not None else "no_base"),
                    ):
                        return
                continue
            ga = np.asarray(g)
            written = pre is None or pre[1] != ga.tobytes() or pre[3] != ga.shape or (pre[0] is not None and pre[0]() is not g)
            if not written:
                continue
            e = exp[h]
            mut = "mutated_after_clear" if self.mutated_since_clear else "no_inplace_update"
            if self.mutated_since_clear:
                mut += "/reused" if (self.mutated_since_clear & self.reused) else "/not_reused"
            if e[0] != "val":
                if w.violation(
                    "C09",
                    "C09.grad_outside_recorded_graph",
                    f"step {w.nstep}: backward() through a partially cleared graph wrote grad {ga.tolist()!r:.100} to handle {h}, whose current version is not part of the graph as recorded",
                    tag=f"C09.stale_values/{mut}",
                ):
                    return
                continue
            if values_ok and (ga.shape != e[1].shape or not close(ga, e[1], w.exact and w.tape.integer_valued, rec.get("scale", 1.0), dtype=w.tol_dtype)):
                if w.violation(
                    "C09",
                    "C09.wrong_grad",
                    f"step {w.nstep}: backward() through a partially cleared graph wrote grad {ga.tolist()!r:.100} to handle {h}; the graph as recorded gives {np.asarray(e[1]).tolist()!r:.100}",
                    tag=f"C09.stale_values/{mut}/wrong_value",
                ):
                    return
            else:
                w.probe("c09.grad_matches_recorded")


# ======================================================================================
# C13 - a failed operation leaves no trace
# ======================================================================================
class NoTraceOracle(Observer):
    """snapshot of every live object before a statement = snapshot after it, whenever the statement
    raised: values, dtype, shape, constant flag, base identity, sharing matrix, writeable flags of
    every caller array and tensor memory, object identity."""

    KINDS = ("op", "inplace", "setshape", "backward", "terminal")

    def attach(self, w):
        self.snap = None

    def _snapshot(self, w):
        ts = {}
        for h, t in w.T.items():
            ts[h] = (id(t), t.data.tobytes(), str(t.dtype), t.shape, bool(t.constant), None if t.base is None else id(t.base))
        arrs = {ha: (a.tobytes(),) for ha, a in w.A.items()}
        hs = sorted(w.T)
        share = []
        for x in range(len(hs)):
            for y in range(x + 1, len(hs)):
                a, b = w.T[hs[x]].data, w.T[hs[y]].data
                share.append(bool(a.size and b.size and np.shares_memory(a, b)))
        return ts, arrs, hs, share

    def before(self, w, ev):
        if ev["k"] in self.KINDS:
            self.snap = self._snapshot(w)
            # half-forgotten view links: the tensor's graph was cleared, or its base was (and no
            # longer lists it); any use - successful or not - may drop such a link (DESIGN C13)
            self.lingering = {h for h, t in w.T.items() if (t.base is not None and t.creator is None) or w.info[h].stale or w.info[h].fam.born == -1}
        else:
            self.snap = None

    def after(self, w, ev, out):
        if self.snap is None or out.status not in ("fail", "unexp"):
            return
        # gradients that a failed statement may legitimately touch (DESIGN C13 don't-care): the
        # target of a failed in-place update, and half-forgotten views whose link it may drop
        w.twin_skip_grad |= set(self.lingering)
        if ev["k"] in ("inplace", "setshape") and ev.get("tgt") in w.info:
            # the target's own gradient and its base's are nulled up-front by the implementation
            w.twin_skip_grad.add(ev["tgt"])
            w.twin_skip_grad |= {hh for hh, ids in w.info[ev["tgt"]].fam.members.items() if ids is None}
        if ev["k"] == "backward" and out.exc == "InvalidBackprop":
            # gradients written before the error are C09's / C14's subject, not a "failed operation":
            # the terminal and what the pass reached before it hit the cleared tensor keep them
            if ev.get("tgt") in w.info:
                w.twin_skip_grad.add(ev["tgt"])
                w.twin_skip_grad |= set(w.upstream_handles(ev["tgt"]))
            return
        ts0, arrs0, hs0, share0 = self.snap
        ts1, arrs1, hs1, share1 = self._snapshot(w)
        kind = f"{ev['k']}:{ev.get('form') or ev.get('op') or ''}/{'injected' if ev.get('kf') else 'natural'}"
        # root-cause feature: the target was left over from a cleared family (C09's root cause) and
        # the statement died of an internal error rather than of a documented rejection
        feat = f"/stale_family/exc={out.exc}" if (ev.get("tgt") in self.lingering) else ""
        if hs0 != hs1:
            w.violation("C13", "C13.handles", f"step {w.nstep}: live handles changed across a failed statement")
            return
        for h in hs0:
            a, b = ts0[h], ts1[h]
            names = ("identity", "value", "dtype", "shape", "constant", "base")
            for n, x, y in zip(names, a, b):
                if x != y:
                    if n == "base" and h in self.lingering:
                        continue  # a half-forgotten base link may be dropped / re-pointed by any use, successful or not (DESIGN C13)
                    if w.violation(
                        "C13",
                        f"C13.snapshot_{n}",
                        f"step {w.nstep}: statement ({kind}) raised {out.exc} but handle {h} changed its {n}",
                        tag=f"C13.snapshot_{n}/{kind}{feat}",
                    ):
                        return
        for ha in arrs0:
            if ha in arrs1 and arrs0[ha] != arrs1[ha]:
                what = "contents"
                if w.violation("C13", "C13.snapshot_array", f"step {w.nstep}: statement ({kind}) raised {out.exc} but caller array {ha} changed its {what}", tag=f"C13.snapshot_array/{what}/{kind}"):
                    return
        if share0 != share1:
            # lingering links again: sharing is physical, so it must not change at all
            if w.violation("C13", "C13.snapshot_sharing", f"step {w.nstep}: statement ({kind}) raised {out.exc} but memory sharing between tensors changed", tag=f"C13.snapshot_sharing/{kind}{feat}"):
                return
        w.probe("c13.failed_statement_checked")
        w.probe("c13.failed." + kind)


# ======================================================================================
# C10 - constant semantics
# ======================================================================================
class ConstOracle(Observer):
    def after(self, w, ev, out):
        k = ev["k"]
        if k in ("leaf", "wrap", "op") and out.status == "nofail" and w.tracking:
            w.violation("C10", "C10.int_nonconstant_accepted", f"step {w.nstep}: a non-float tensor with constant=False was accepted while tracking", tag=f"C10.int_nonconstant_accepted/{k}")
            return
        if out.status != "ok" or k not in ("leaf", "wrap", "op", "inplace", "terminal", "setshape"):
            return
        evt = k + ":" + str(ev.get("form") or ev.get("op") or "")
        for h, t in w.T.items():
            i = w.info[h]
            if t.constant is not i.const and not (t.constant == i.const and isinstance(t.constant, (bool, np.bool_))):
                role = "view" if i.ids is not None else "owner"
                if w.violation(
                    "C10",
                    "C10.flag",
                    f"step {w.nstep} ({evt}): handle {h} ({role}) has constant={t.constant!r}; the rules give {i.const}",
                    tag=f"C10.flag/{evt}/{role}",
                ):
                    return
        w.probe("c10.flags_checked")


# ======================================================================================
# C12 - inputs never modified, gradients never aliased
# ======================================================================================
def _ck(a):
    a = np.asarray(a)
    return (a.tobytes(), a.shape, a.dtype.str)


class NoMutationOracle(Observer):
    WATCH = ("op", "inplace", "backward", "terminal", "setshape", "clear", "null_grad", "nnet", "readgrad", "save", "load", "conv")

    def attach(self, w):
        self.pre = None
        self.window = False  # right after a judged backward: conversions (t.copy() ...) are re-checked for aliasing

    def before(self, w, ev):
        if ev["k"] not in self.WATCH:
            self.pre = None
            return
        tgt = None
        if ev["k"] in ("inplace", "setshape") and ev["tgt"] in w.T:
            tgt = w.T[ev["tgt"]].data
        elif ev["k"] == "op" and ev.get("out_arr") in w.A:
            tgt = w.A[ev["out_arr"]]
        arrs = {}
        for ha, a in w.A.items():
            if tgt is not None and a.size and tgt.size and np.shares_memory(a, tgt):
                continue
            arrs[ha] = _ck(a)
        data = {}
        fam = set(w.info[ev["tgt"]].fam.members) if (ev["k"] in ("inplace", "setshape") and ev["tgt"] in w.info) else set()
        for h, t in w.T.items():
            if h in fam:
                continue
            if tgt is not None and t.data.size and tgt.size and np.shares_memory(t.data, tgt):
                continue
            if ev["k"] in ("inplace", "setshape") and (w.info[h].stale or w.info[h].fam.born == -1):
                # a view left over from a cleared family: whether an update of another left-over
                # member re-creates it is the half-forgotten-link behaviour listed under C09/C13
                continue
            data[h] = _ck(t.data)
        self.pre = (arrs, data)

    def after(self, w, ev, out):
        if self.pre is None:
            return
        arrs, data = self.pre
        self.pre = None
        k = ev["k"]
        what = k + ":" + str(ev.get("form") or ev.get("op") or ev.get("layer") or "")
        seed_h = (ev.get("seed") or {}).get("a") if k == "backward" else None
        seed_t = (ev.get("seed") or {}).get("t") if k == "backward" else None
        operands = {r["a"] for r in ev.get("args", []) if "a" in r}
        for ha, c in arrs.items():
            if ha in w.A and _ck(w.A[ha]) != c:
                role = "seed" if ha == seed_h else ("operand" if ha in operands else ("held_" + w.a_kind.get(ha, "array")))
                if role != "seed" and any(r() is w.A[ha] for r in getattr(self, "seeds", [])):
                    role = "former_seed"  # it was handed to an earlier backward(grad) and is still some tensor's .grad
                if w.violation(
                    "C12",
                    "C12.caller_array_modified",
                    f"step {w.nstep} ({what}): caller array {ha} ({role}) changed although it is not the explicit target",
                    tag=f"C12.caller_array_modified/{self._lasttag(w, ev)}/role={role}",
                ):
                    return
        for h, c in data.items():
            if h in w.T and _ck(w.T[h].data) != c:
                role = "seed_tensor" if h == seed_t else ("operand" if any(r.get("t") == h for r in ev.get("args", [])) else "other")
                if role != "seed_tensor" and any(r() is w.T[h].data for r in getattr(self, "seeds", [])):
                    role = "former_seed"  # its data was handed to an earlier backward(grad) and is still some tensor's .grad
                if w.violation(
                    "C12",
                    "C12.tensor_data_modified",
                    f"step {w.nstep} ({what}): data of tensor handle {h} ({role}) changed although it is not the explicit target",
                    tag=f"C12.tensor_data_modified/{what}/role={role}",
                ):
                    return
        if w.index_modified:
            w.index_modified = False
            if w.violation("C12", "C12.index_modified", f"step {w.nstep} ({what}): an index array handed to MyGrad was modified", tag=f"C12.index_modified/{what}"):
                return
        w.probe("c12.events_checked")
        if k == "backward":
            # every array handed to backward(grad) in this run (recorded even when the call is not
            # judged: the aliasing it causes is still there at the next backward)
            import weakref as _wr

            if not hasattr(self, "seeds"):
                self.seeds = []
            seed = ev.get("seed") or {}
            if "a" in seed and seed["a"] in w.A:
                self.seeds.append(_wr.ref(w.A[seed["a"]]))
            if "t" in seed and seed["t"] in w.T:
                self.seeds.append(_wr.ref(w.T[seed["t"]].data))
        if k not in ("readgrad", "conv", "backward"):
            self.window = False
        if k == "backward" and out.status == "ok" and w.tracking:
            self.window = False
            rec = w.last_backward
            if rec is not None and rec.get("tainted"):
                w.count("c12.alias_unjudged.partially_cleared")  # C09's territory
                self.poisoned = True  # gradients left behind by it stay around
            elif not getattr(self, "poisoned", False):
                self.alias_check(w, ev)
                self.window = not w.violations
        elif k == "conv" and out.status == "ok" and self.window and w.tracking:
            # a copy / conversion of a tensor that holds a gradient: the new tensor's gradient is its own
            self.alias_check(w, self.window_ev if hasattr(self, "window_ev") else {})
            w.probe("c12.alias_checked_after_conversion")
        if k == "backward":
            self.window_ev = ev

    @staticmethod
    def _lasttag(w, ev):
        if ev["k"] != "backward":
            return ev["k"] + ":" + str(ev.get("form") or ev.get("op") or ev.get("layer") or "")
        # which op type produced the terminal (GRU etc. have hand-written backward())
        h = ev["tgt"]
        mb = w.info[h].made_by if h in w.info else "?"
        return "backward/terminal_made_by=" + mb

    def alias_check(self, w, ev):
        """after a backward: gradients alias each other only where data does; never data; never a
        caller array.  Aliasing that goes back to a seed handed to backward(grad) is tagged
        via_seed (one root cause: the seed is stored without copying)."""
        seed = ev.get("seed") or {}
        if not hasattr(self, "seeds"):
            self.seeds = []
        items = [(h, t, w.read_grad(t, h)) for h, t in w.T.items()]
        grads = [(h, t, g) for h, t, g in items if g is not None and isinstance(g, np.ndarray) and g.size]

        def seed_aliased(g):
            for r in self.seeds:
                a = r()
                if a is not None and a.size and np.shares_memory(g, a):
                    return True
            return False

        sa = {h: seed_aliased(g) for h, t, g in grads}
        for x in range(len(grads)):
            hx, tx, gx = grads[x]
            via = "via_seed" if sa[hx] else "other"
            for y in range(x + 1, len(grads)):
                hy, ty, gy = grads[y]
                if np.shares_memory(gx, gy) and not (tx.data.size and ty.data.size and np.shares_memory(tx.data, ty.data)):
                    v2 = "via_seed" if (sa[hx] and sa[hy]) else "other"
                    for hh, tt in ((hx, tx), (hy, ty)):
                        if (w.info[hh].stale or w.info[hh].fam.born == -1) and tt.base is not None:
                            v2 = "stale_view"  # (or a view of a left-over view)
                    if w.violation("C12", "C12.grad_alias", f"step {w.nstep}: gradients of handles {hx},{hy} share memory but their data do not", tag=f"C12.grad_alias/grad_grad/{v2}"):
                        return
            for hy, ty, _ in items:
                if ty.data.size and np.shares_memory(gx, ty.data):
                    if w.violation("C12", "C12.grad_alias", f"step {w.nstep}: gradient of handle {hx} shares memory with the data of handle {hy}", tag=f"C12.grad_alias/grad_data/{via}"):
                        return
            for ha, a in w.A.items():
                if w.a_kind.get(ha) == "grad":
                    continue
                if a.size and np.shares_memory(gx, a):
                    if w.violation("C12", "C12.grad_alias", f"step {w.nstep}: gradient of handle {hx} shares memory with caller array {ha}", tag=f"C12.grad_alias/grad_caller_array/{via}"):
                        return
        # operational form: edit one gradient in place, nothing else may change
        for hx, tx, gx in grads[:6]:
            if not gx.flags.writeable:
                continue
            via = "via_seed" if sa[hx] else "other"
            others_g = {h: _ck(g) for h, t, g in grads if h != hx and not (t.data.size and tx.data.size and np.shares_memory(t.data, tx.data))}
            datas = {h: _ck(t.data) for h, t, _ in items}
            arrs = {ha: _ck(a) for ha, a in w.A.items() if w.a_kind.get(ha) != "grad"}
            gx += 1
            try:
                for h, t, g in grads:
                    if h in others_g and _ck(g) != others_g[h]:
                        v3 = via
                        for hh, tt in ((hx, tx), (h, t)):
                            if (w.info[hh].stale or w.info[hh].fam.born == -1) and tt.base is not None:
                                v3 = "stale_view"
                        if w.violation("C12", "C12.grad_edit_leaks", f"step {w.nstep}: editing the gradient of handle {hx} in place changed the gradient of handle {h}", tag=f"C12.grad_edit_leaks/grad/{v3}"):
                            return
                for h, t, _ in items:
                    if _ck(t.data) != datas[h]:
                        if w.violation("C12", "C12.grad_edit_leaks", f"step {w.nstep}: editing the gradient of handle {hx} in place changed the data of handle {h}", tag=f"C12.grad_edit_leaks/data/{via}"):
                            return
                for ha, a in w.A.items():
                    if ha in arrs and _ck(a) != arrs[ha]:
                        if w.violation("C12", "C12.grad_edit_leaks", f"step {w.nstep}: editing the gradient of handle {hx} in place changed caller array {ha}", tag=f"C12.grad_edit_leaks/caller_array/{via}"):
                            return
            finally:
                gx -= 1
        w.probe("c12.alias_checked")


# ======================================================================================
# C14 - shape / dtype / type of every stored gradient; seeding
# ======================================================================================
class GradShapeOracle(Observer):
    def after(self, w, ev, out):
        for h, t in w.T.items():
            g = w.read_grad(t, h)
            if g is None:
                continue
            mb = w.info[h].made_by
            if type(g) is not np.ndarray:
                if w.violation("C14", "C14.grad_type", f"step {w.nstep}: handle {h}: .grad is a {type(g).__name__}, not a numpy.ndarray", tag=f"C14.grad_type/{type(g).__name__}/made_by={mb}"):
                    return
                continue
            if g.shape != t.shape:
                if w.violation("C14", "C14.grad_shape", f"step {w.nstep}: handle {h}: grad.shape {g.shape} != tensor.shape {t.shape}", tag=f"C14.grad_shape/made_by={mb}/ev={ev['k']}"):
                    return
                continue
            if g.dtype != t.dtype:
                if w.violation("C14", "C14.grad_dtype", f"step {w.nstep}: handle {h}: grad.dtype {g.dtype} != tensor.dtype {t.dtype}", tag=f"C14.grad_dtype/made_by={mb}/ev={ev['k']}"):
                    return
                continue
        if ev["k"] == "backward":
            w.probe("c14.checked_after_backward")
            rec = w.last_backward
            if ev.get("fail") and rec is not None:
                if out.status == "nofail":
                    w.violation("C14", "C14.bad_seed_accepted", f"step {w.nstep}: backward() accepted a seed that does not broadcast to the tensor's shape", tag="C14.bad_seed_accepted")
                    return
                if out.status == "fail":
                    # no gradient is written: nothing new, nothing changed (becoming None is allowed)
                    for h, t in w.T.items():
                        g = w.read_grad(t, h)
                        pre = rec["pre_grads"].get(h)
                        if g is None:
                            continue
                        ga = np.asarray(g)
                        if pre is None or pre[1] != ga.tobytes() or pre[3] != ga.shape:
                            if w.violation("C14", "C14.bad_seed_wrote_grad", f"step {w.nstep}: a rejected seed still wrote a gradient to handle {h}", tag="C14.bad_seed_wrote_grad"):
                                return
                    w.probe("c14.bad_seed_rejected")


# ======================================================================================
# C07 - backward releases the whole graph; gradients never go stale
# ======================================================================================
class ReleaseOracle(Observer):
    """weakref ground truth: after L.backward() everything that was in L's graph and that the
    caller does not itself reference is dead, with the cyclic collector off."""

    def attach(self, w):
        self.pending = None

    def before(self, w, ev):
        self.pending = None
        if ev["k"] != "backward" or ev["tgt"] not in w.T or not w.tracking:
            return
        t0 = w.T[ev["tgt"]]
        refs = []
        seen = set()
        stack = [t0]
        while stack:
            x = stack.pop()
            if id(x) in seen:
                continue
            seen.add(id(x))
            refs.append(("tensor", weakref.ref(x)))
            refs.append(("array", weakref.ref(x.data)))
            c = x.creator
            if c is not None and id(c) not in seen:
                seen.add(id(c))
                refs.append(("op:" + type(c).__name__, weakref.ref(c)))
                stack.extend(c.variables)
            b = x.base
            if b is not None:
                stack.append(b)
        held_up = [h for h, t in w.T.items() if id(t) in seen]
        self.pending = (refs, held_up)
        del stack, t0, seen

    def _retained(self, w):
        """ids of everything the caller legitimately keeps alive: reachable from a caller-held
        tensor/array through .data/.base/.grad, and - for tensors whose own graph has not been
        cleared - through anything their creator references, transitively (DESIGN 3/C07)."""
        import types

        keep = set()
        stack = list(w.T.values()) + [r() for r in w.parked if r() is not None] + list(w.A.values())
        skip = (type, types.ModuleType, types.CodeType, types.BuiltinFunctionType, str, bytes, int, float, bool, type(None), np.dtype, np.generic, np.ufunc)
        while stack:
            x = stack.pop()
            if x is None or id(x) in keep:
                continue
            keep.add(id(x))
            if isinstance(x, np.ndarray):
                if isinstance(x.base, np.ndarray):
                    stack.append(x.base)
                continue
            if not isinstance(x, Tensor):
                continue
            stack.append(x.data)
            stack.append(getattr(x, "_grad", None))
            stack.append(getattr(x, "_view_grad", None))
            stack.append(x.base)
            c = x.creator
            if c is None:
                continue
            sub = [c]
            n = 0
            while sub and n < 50000:
                y = sub.pop()
                n += 1
                if id(y) in keep or isinstance(y, skip):
                    continue
                if isinstance(y, dict) and "__builtins__" in y:
                    continue
                if isinstance(y, (Tensor, np.ndarray)):
                    stack.append(y)
                    continue
                if isinstance(y, weakref.ReferenceType):
                    continue
                keep.add(id(y))
                try:
                    sub.extend(gc.get_referents(y))
                except Exception:
                    pass
        return keep

    def after(self, w, ev, out):
        if self.pending is None or ev["k"] != "backward":
            return
        refs, held_up = self.pending
        self.pending = None
        if out.status != "ok":
            return
        rec = w.last_backward
        if rec is None or rec.get("tainted") or w.aborted_backward:
            w.count("c07.release_unjudged")
            return
        # (a) upstream caller-held tensors: no creator, no recorded consumers
        for h in held_up:
            if h not in w.T:
                continue
            t = w.T[h]
            if t.creator is not None:
                if w.violation("C07", "C07.creator_left", f"step {w.nstep}: handle {h} is upstream of the terminal but still has a creator after backward()", tag="C07.creator_left"):
                    return
            ops = getattr(t, "_ops", None)
            if ops is not None and len(ops) != 0:
                if any(r() is not None for r in ops):
                    if w.violation("C07", "C07.consumers_left", f"step {w.nstep}: handle {h} is upstream of the terminal but still records consumers after backward()", tag="C07.consumers_left"):
                        return
        # (b) everything else in the graph is dead without a GC pass
        alive = [(kind, r()) for kind, r in refs if r() is not None]
        if not alive:
            w.probe("c07.graph_fully_released")
            return
        keep = self._retained(w)
        surv = [(kind, o) for kind, o in alive if id(o) not in keep]
        del alive
        if not surv:
            w.probe("c07.graph_released_except_retained")
            return
        kinds = sorted({k for k, _ in surv})
        wr = [weakref.ref(o) for _, o in surv]
        # is a referrer inside the harness?  (then it is our bug, not MyGrad's)
        for _, o in surv[:3]:
            for rf in gc.get_referrers(o):
                mod = getattr(rf, "__module__", None) or ""
                if isinstance(rf, dict) and rf.get("__name__", "").startswith("mgsim"):
                    raise __import__("mgsim.world", fromlist=["HarnessError"]).HarnessError("a survivor is referenced from mgsim module globals")
        del surv
        n = gc.collect()
        still = sum(1 for r in wr if r() is not None)
        cls = "leak" if still else "cyclic_garbage"
        w.violation(
            "C07",
            "C07.not_freed_by_refcount",
            f"step {w.nstep}: after backward() {len(wr)} object(s) of the cleared graph ({', '.join(kinds)}) that the caller does not reference are still alive with the cyclic collector off ({cls}: {still} survive a gc.collect())",
            tag=f"C07.not_freed_by_refcount/{cls}/{'+'.join(k.split(':')[0] for k in kinds)}" + ("/after_graph_cycle" if w.graph_cycle_seen else ""),
        )


class GradLifetimeOracle(Observer):
    """per handle: None | value | don't-care (DESIGN 3/C07)."""

    def attach(self, w):
        self.exp = {}  # handle -> ("none",) | ("val", bytes, shape) | ("dc",)
        self.iters = {}
        self.lingering = set()
        self.ids_seen = {}  # handle -> flat positions in its (former) base, remembered across clears

    def before(self, w, ev):
        # views left over from a cleared family that still carry their old .base link
        self.lingering = {h for h, t in w.T.items() if t.base is not None and t.creator is None}
        for h, i in w.info.items():
            if i.ids is not None and not i.foreign:
                self.ids_seen[h] = i.ids

    def _stale_view_check(self, w, what):
        """a view left over from a cleared family (lingering .base): its gradient is None or the
        corresponding view of its old base's CURRENT gradient - never an older value (C07)."""
        for h, t in w.T.items():
            i = w.info[h]
            if not (i.stale and t.base is not None and h in self.ids_seen) or i.const or i.chain_const:
                continue
            g = w.read_grad(t, h)
            if g is None:
                continue
            bg = w.read_grad(t.base, "base")
            ids = self.ids_seen[h]
            ok = False
            if bg is not None and np.asarray(bg).size > int(ids.max()) if ids.size else True:
                try:
                    ok = bool(np.array_equal(np.asarray(g), np.asarray(bg).reshape(-1)[ids], equal_nan=True))
                except Exception:
                    ok = True  # shapes no longer comparable (base was reshaped): nothing asserted
            if not ok and bg is not None:
                if w.violation("C07", "C07.stale_view_grad", f"step {w.nstep} ({what}): view handle {h} (left over from a cleared family) reads a gradient that is not the view of its base's current gradient - a stale value", tag=f"C07.stale_view_grad/{what.split(':')[0]}"):
                    return True
            if bg is None:
                if w.violation("C07", "C07.stale_view_grad", f"step {w.nstep} ({what}): view handle {h} (left over from a cleared family) still reads a gradient although its base has none", tag=f"C07.stale_view_grad/base_has_none/{what.split(':')[0]}"):
                    return True
        return False

    @staticmethod
    def _state(w, h):
        g = w.read_grad(w.T[h], h)
        if g is None:
            return ("none",)
        ga = np.asarray(g)
        return ("val", ga.tobytes(), ga.shape)

    def _phys_sharing(self, w, hs):
        out = set(hs)
        for h in hs:
            if h not in w.T:
                continue
            d = w.T[h].data
            for k, t in w.T.items():
                if k not in out and t.data.size and d.size and np.shares_memory(t.data, d):
                    out.add(k)
        return out

    def after(self, w, ev, out):
        k = ev["k"]
        # new handles start without a gradient
        for h in w.T:
            if h not in self.exp:
                # a new view of a tensor that holds a gradient shows the corresponding view of it
                self.exp[h] = self._state(w, h) if (w.info[h].ids is not None or w.info[h].foreign) else ("none",)
        for h in [h for h in self.exp if h not in w.T]:
            del self.exp[h]
        if w.aborted_backward or w.grad_poisoned:
            for h in self.exp:
                self.exp[h] = ("dc",)
            return
        touched_none = set()
        dc = set()
        if out.status == "ok" and w.tracking:
            if k in ("op", "nnet") and ev["out"] in w.info:
                is_view = w.info[ev["out"]].ids is not None
                if not is_view:
                    touched_none |= {r["t"] for r in ev.get("args", []) if "t" in r}
            elif k == "terminal":
                touched_none |= {h for h, _ in ev["terms"] if h in w.T}
            elif k == "inplace":
                touched_none |= {r["t"] for r in ev.get("args", []) if "t" in r}
                if ev["tgt"] in w.info:
                    fam = set(w.info[ev["tgt"]].fam.members)
                    touched_none |= fam
            elif k == "setshape":
                touched_none.add(ev["tgt"])
            elif k == "backward":
                rec = w.last_backward
                e = (rec or {}).get("expected")
                if e is None or rec.get("tainted"):
                    dc |= set(w.T)
                else:
                    for h, x in e.items():
                        if h not in w.T:
                            continue
                        if x[0] == "keep":
                            continue
                        self.exp[h] = self._state(w, h)  # judged against the tape by GradOracle
                    # a stale view whose old base got a new gradient reads None (see GradOracle)
                    for h in w.T:
                        if w.info[h].stale and w.T[h].base is not None and e.get(h, ("keep",))[0] == "keep":
                            dc.add(h)
                    for h in w.T:
                        if h not in e:
                            dc.add(h)
        elif out.status in ("fail", "unexp") and k == "inplace":
            dc.add(ev["tgt"])  # the target's gradient is cleared up-front (DESIGN C07 don't-care)
            if ev["tgt"] in w.info:
                dc |= set(w.info[ev["tgt"]].fam.members)
        elif out.status in ("fail", "unexp") and k == "backward":
            dc |= set(w.T)
        elif out.status in ("fail", "unexp") and k == "setshape":
            dc.add(ev["tgt"])
        if k == "null_grad" and out.status == "ok":
            touched_none.add(ev["tgt"])
        if k == "clear" and out.status == "ok":
            # clear_graph pulls view gradients and leaves gradients in place
            pass
        # tensors that merely share memory with a used tensor: views are handled below (they mirror
        # their base); anything else is unrelated to MyGrad's bookkeeping -> re-anchored
        direct = set(touched_none)
        for h in direct:
            if h in w.T:
                self.exp[h] = ("none",)
        if direct and k != "null_grad":
            for h in self._phys_sharing(w, direct) - direct:
                if h in self.exp:
                    dc.add(h)
        for h in dc:
            if h in self.exp:
                self.exp[h] = ("dc",)
        # compare
        what = k + ":" + str(ev.get("form") or ev.get("op") or "")
        if self._stale_view_check(w, what):
            return
        owner_of = {}
        for h in w.T:
            i = w.info[h]
            if i.ids is not None:
                for hh, ids in i.fam.members.items():
                    if ids is None:
                        owner_of[h] = hh
        for h, e in self.exp.items():
            if e[0] == "dc" or h not in w.T:
                if e[0] == "dc" and h in w.T:
                    self.exp[h] = self._state(w, h)  # re-anchor
                continue
            if w.info[h].ids is not None:
                # a view mirrors its base (C06): the only lifetime rule is "base gone => view gone"
                cur = self._state(w, h)
                o = owner_of.get(h)
                if o is not None and self.exp.get(o, ("dc",))[0] == "none" and cur[0] != "none" and not w.info[h].chain_const and not w.info[o].const:
                    if w.violation("C07", "C07.view_grad_stale", f"step {w.nstep} ({what}): view handle {h} still reads a gradient although its base's gradient is gone", tag=f"C07.view_grad_stale/{what}"):
                        return
                self.exp[h] = cur
                continue
            cur = self._state(w, h)
            if cur != e:
                kind = "lost" if cur[0] == "none" else ("appeared" if e[0] == "none" else "changed")
                role = "view" if w.info[h].ids is not None else ("stale_view" if (w.info[h].stale and w.T[h].base is not None) else "owner")
                if role == "stale_view" and kind == "lost":
                    self.exp[h] = cur
                    continue
                if h in self.lingering and w.T[h].base is None:
                    role = "stale_view_detached"  # its lingering .base link was just dropped by a use
                if w.violation(
                    "C07",
                    f"C07.grad_{kind}",
                    f"step {w.nstep} ({what}): the gradient of handle {h} ({role}) {kind} although nothing that should affect it happened" if kind != "appeared" else f"step {w.nstep} ({what}): handle {h} ({role}) reads a gradient although it should read None (stale value)",
                    tag=f"C07.grad_{kind}/{what}/{role}",
                ):
                    return
                self.exp[h] = cur
        w.probe("c07.lifetime_checked")

    # repeated iterations -----------------------------------------------------------------
    def scope_event(self, w, what, name):
        pass


class RepeatOracle(Observer):
    """verbatim repeated iterations that do not mutate leaves give bit-identical gradients (for
    the leaves the terminal depends on; the model must agree that the two steps are the same)"""

    def attach(self, w):
        self.seen = {}
        self.bw_in_iter = False  # a backward pass ran in this iteration and nothing nulled gradients since

    def after(self, w, ev, out):
        if ev["k"] == "backward":
            self.bw_in_iter = True
        elif ev["k"] in ("null_grad", "clear"):
            self.bw_in_iter = False  # the caller discarded gradients: nothing of this iteration is compared
        if ev["k"] != "iter_end":
            return
        rec = w.last_backward if self.bw_in_iter else None
        self.bw_in_iter = False
        cur = {}
        if rec is not None and rec.get("status") == "ok" and rec.get("expected") is not None and not rec.get("tainted"):
            reach = set(rec.get("reach_handles") or [])
            for h in ev["leaves"]:
                if h in w.T and h in reach:
                    g = w.read_grad(w.T[h], h)
                    e = rec["expected"].get(h)
                    cur[h] = (None if g is None else (np.asarray(g).tobytes(), np.asarray(g).shape), None if e is None or e[0] != "val" else np.asarray(e[1]).tobytes())
        self.seen[ev["id"]] = cur
        j = ev.get("rep_of")
        if j is None or j not in self.seen or w.aborted_backward:
            return
        ref = self.seen[j]
        n = 0
        for h, v in cur.items():
            if h not in ref or ref[h][1] is None or ref[h][1] != v[1]:
                continue  # not the same step according to the model
            n += 1
            if ref[h][0] != v[0]:
                if w.violation("C07", "C07.repeat_differs", f"step {w.nstep}: leaf handle {h}: repeating the same forward/backward step gave a different gradient (iteration {ev['id']} vs {j})", tag="C07.repeat_differs"):
                    return
        if n:
            w.probe("c07.repeat_identical")


# ======================================================================================
# C15 - no_autodiff / mem-guard switches
# ======================================================================================
class SwitchOracle(Observer):
    """M4: after every enter, exit (normal or exceptional), toggle and statement, both switches
    equal the per-manager stack model; read through the public mem_guard_active(), the anchored
    TRACK_GRAPH, and a behavioural probe statement."""

    def _check(self, w, where):
        try:
            guard = bool(mg.mem_guard_active())
        except Exception:
            guard = None
        track = getattr(_track, "TRACK_GRAPH", None)
        if track is None:
            w.probe("seam_missing.TRACK_GRAPH")
        if guard is not None and guard != w.guard:
            w.violation("C15", "C15.mem_guard_switch", f"step {w.nstep} ({where}): mem_guard_active() is {guard}, the scope model says {w.guard} (stack {w.scope_stack})", tag=f"C15.mem_guard_switch/{where.split(':')[0]}")
            return False
        if track is not None and bool(track) != w.tracking:
            w.violation("C15", "C15.track_switch", f"step {w.nstep} ({where}): graph tracking is {track}, the scope model says {w.tracking} (stack {w.scope_stack})", tag=f"C15.track_switch/{where.split(':')[0]}")
            return False
        # behavioural probe: does a statement record a graph / lock memory right now?
        a = np.ones(2)
        t = mg.add(a, 1.0)
        rec = t.creator is not None
        locked = not a.flags.writeable
        del t
        if rec != w.tracking:
            w.violation("C15", "C15.track_behaviour", f"step {w.nstep} ({where}): a probe statement {'recorded' if rec else 'did not record'} a graph, the scope model says tracking={w.tracking}", tag=f"C15.track_behaviour/{where.split(':')[0]}")
            return False
        if locked != (w.tracking and w.guard):
            w.violation("C15", "C15.guard_behaviour", f"step {w.nstep} ({where}): a probe statement {'locked' if locked else 'did not lock'} its input, the scope model says tracking={w.tracking} guard={w.guard}", tag=f"C15.guard_behaviour/{where.split(':')[0]}")
            return False
        if not a.flags.writeable:
            w.violation("C15", "C15.probe_lock_left", f"step {w.nstep} ({where}): the probe statement's input stayed locked after its result was dropped", tag="C15.probe_lock_left")
            return False
        w.probe("c15.switch_checked")
        return True

    def scope_event(self, w, what, name):
        self._check(w, f"{what}:{name}")

    def after(self, w, ev, out):
        if ev["k"] != "scope":
            self._check(w, "after:" + ev["k"])

    def at_quiescence(self, w, held_arrays, orig, entered):
        if w.scope_stack:
            return
        self._check(w, "quiescence")


class NoAutodiffOracle(Observer):
    """inside no_autodiff: same values/dtypes, nothing recorded, inputs keep consumers and grads,
    no array locked, in-place writes straight into memory, backward() does nothing."""

    def attach(self, w):
        self.pre = None

    @staticmethod
    def _nops(t):
        ops = getattr(t, "_ops", None)
        return None if ops is None else len(ops)

    def before(self, w, ev):
        self.pre = None
        if w.tracking or ev["k"] not in ("op", "inplace", "backward", "terminal", "nnet", "setshape", "clear"):
            return
        st = {}
        for h, t in w.T.items():
            g = w.read_grad(t, h)
            st[h] = (self._nops(t), None if g is None else np.asarray(g).tobytes(), id(t.creator) if t.creator is not None else None, id(t.data), bool(t.data.flags.writeable))
        fl = {ha: bool(a.flags.writeable) for ha, a in w.A.items()}
        self.pre = (st, fl)

    def after(self, w, ev, out):
        if self.pre is None or out.status != "ok":
            self.pre = None
            return
        st, fl = self.pre
        self.pre = None
        k = ev["k"]
        what = k + ":" + str(ev.get("form") or ev.get("op") or "")
        tgt = ev.get("tgt") if k in ("inplace", "setshape") else None
        for h, (nops, gb, cid, did, wr) in st.items():
            if h not in w.T:
                continue
            t = w.T[h]
            if self._nops(t) != nops:
                if w.violation("C15", "C15.untracked_recorded_consumer", f"step {w.nstep} ({what}): inside no_autodiff handle {h} gained/lost recorded consumers", tag=f"C15.untracked_recorded_consumer/{what}"):
                    return
            g = w.read_grad(t, h)
            gb2 = None if g is None else np.asarray(g).tobytes()
            if gb2 != gb and not (k == "setshape" and h == tgt):
                if w.violation("C15", "C15.untracked_grad_changed", f"step {w.nstep} ({what}): inside no_autodiff the gradient of handle {h} changed", tag=f"C15.untracked_grad_changed/{what}"):
                    return
            c2 = id(t.creator) if t.creator is not None else None
            if c2 != cid and k != "clear":
                if w.violation("C15", "C15.untracked_creator_changed", f"step {w.nstep} ({what}): inside no_autodiff the creator of handle {h} changed", tag=f"C15.untracked_creator_changed/{what}"):
                    return
            if id(t.data) != did:
                if w.violation("C15", "C15.untracked_inplace_copied", f"step {w.nstep} ({what}): inside no_autodiff handle {h}'s memory was replaced instead of written in place", tag=f"C15.untracked_inplace_copied/{what}"):
                    return
            if bool(t.data.flags.writeable) != wr:
                if w.violation("C15", "C15.untracked_lock", f"step {w.nstep} ({what}): inside no_autodiff the writeable flag of handle {h}'s memory changed", tag=f"C15.untracked_lock/{what}"):
                    return
        for ha, wr in fl.items():
            if ha in w.A and bool(w.A[ha].flags.writeable) != wr:
                if w.violation("C15", "C15.untracked_lock", f"step {w.nstep} ({what}): inside no_autodiff the writeable flag of caller array {ha} changed", tag=f"C15.untracked_lock/{what}/caller_array"):
                    return
        if k in ("op", "terminal", "nnet") and ev["out"] in w.T:
            t = w.T[ev["out"]]
            if t.creator is not None or t.base is not None:
                if w.violation("C15", "C15.untracked_result_recorded", f"step {w.nstep} ({what}): a result created inside no_autodiff has a creator or a base", tag=f"C15.untracked_result_recorded/{what}"):
                    return
            s = w.S.get(ev["out"])
            if k == "op" and s is not None and (t.data.shape != s.shape or t.data.dtype != s.dtype or not np.array_equal(t.data, s, equal_nan=True)):
                if w.violation("C15", "C15.untracked_value", f"step {w.nstep} ({what}): inside no_autodiff the result differs from the tracked/NumPy result", tag=f"C15.untracked_value/{what}"):
                    return
        if k == "inplace" and w.last_inplace and w.last_inplace.get("value_ok") is False:
            if w.violation("C15", "C15.untracked_inplace_value", f"step {w.nstep} ({what}): inside no_autodiff the in-place update left different values than NumPy's", tag=f"C15.untracked_inplace_value/{what}"):
                return
        w.probe("c15.untracked_statement_checked")


# ======================================================================================
# C18 - save / load
# ======================================================================================
class SaveLoadOracle(Observer):
    def attach(self, w):
        self.pre = None

    @staticmethod
    def _snap(w, h):
        t = w.T[h]
        g = w.read_grad(t, h)
        return (
            t.data.tobytes(),
            str(t.dtype),
            t.shape,
            None if g is None else (np.asarray(g).tobytes(), str(np.asarray(g).dtype), np.asarray(g).shape),
            id(t.creator) if t.creator is not None else None,
            None if getattr(t, "_ops", None) is None else len(t._ops),
            bool(t.data.flags.writeable),
            id(t.base) if t.base is not None else None,
            bool(t.constant),
        )

    def before(self, w, ev):
        self.pre = None
        if ev["k"] == "save":
            self.pre = {h: self._snap(w, h) for h in w.T}

    def after(self, w, ev, out):
        k = ev["k"]
        if k == "save" and self.pre is not None:
            names = ("data", "dtype", "shape", "grad", "creator", "consumers", "writeable flag", "base", "constant")
            for h, a in self.pre.items():
                if h not in w.T:
                    continue
                b = self._snap(w, h)
                for n, x, y in zip(names, a, b):
                    if x != y:
                        if w.violation("C18", "C18.save_altered", f"step {w.nstep}: save() ({out.cls()}) changed the {n} of handle {h}", tag=f"C18.save_altered/{n}/{'failed_write' if out.status == 'fail' else 'ok'}"):
                            return
            self.pre = None
            w.probe("c18.save_checked")
            return
        if k == "load" and out.status == "unexp":
            w.violation("C18", "C18.load_raised", f"step {w.nstep}: load() of a successfully saved tensor raised {out.exc}: {out.msg[:120]}", tag=f"C18.load_raised/{out.exc}")
            return
        if k == "load" and out.status == "ok" and w.last_load is not None:
            h, snap = w.last_load
            w.last_load = None
            t = w.T[h]
            kind = f"dtype={snap['dtype']}/ndim={len(snap['shape'])}"
            if t.shape != snap["shape"] or t.dtype != snap["dtype"]:
                if w.violation("C18", "C18.roundtrip_shape_dtype", f"step {w.nstep}: loaded tensor has shape/dtype {t.shape}/{t.dtype}, saved {snap['shape']}/{snap['dtype']}", tag=f"C18.roundtrip_shape_dtype/{kind}"):
                    return
            elif not np.array_equal(t.data, snap["data"], equal_nan=True):
                if w.violation("C18", "C18.roundtrip_data", f"step {w.nstep}: loaded data differ from the saved tensor's", tag=f"C18.roundtrip_data/{kind}"):
                    return
            g = w.read_grad(t, h)
            sg = snap["grad"]
            if not w.tracking:
                w.count("c18.load_untracked_grad_unjudged")
            elif (g is None) != (sg is None):
                if w.violation("C18", "C18.roundtrip_grad_presence", f"step {w.nstep}: saved tensor {'had' if sg is not None else 'had no'} gradient, loaded tensor {'has' if g is not None else 'has none'}", tag=f"C18.roundtrip_grad_presence/{'lost' if g is None else 'appeared'}/{kind}"):
                    return
            elif g is not None:
                ga = np.asarray(g)
                if ga.shape != sg.shape or ga.dtype != snap["grad_dtype"] or not np.array_equal(ga, sg, equal_nan=True):
                    if w.violation("C18", "C18.roundtrip_grad", f"step {w.nstep}: loaded gradient (shape {ga.shape}, dtype {ga.dtype}) differs from the saved one (shape {sg.shape}, dtype {snap['grad_dtype']})", tag=f"C18.roundtrip_grad/{kind}"):
                        return
            w.probe("c18.roundtrip_checked")
            if sg is not None:
                w.probe("c18.roundtrip_with_grad")


# ======================================================================================
# C17 - construction / conversion: copying, aliasing (the clauses about later behaviour)
# ======================================================================================
class CreationOracle(Observer):
    """creation routines (the per-call clause of C17, embedded in histories because the dtype gate and
    the constant flag depend on the tracking switch in force): values, shape and dtype of the NumPy
    namesake for the same explicit arguments; a detached tensor; the flag the rules give"""

    def after(self, w, ev, out):
        if ev["k"] != "create":
            return
        lc, w.last_create = w.last_create, None
        fn = ev["fn"]
        if out.status == "unexp":
            w.violation("C17", "C17.creation", f"step {w.nstep}: mg.{fn} with arguments NumPy accepts raised {out.exc}: {out.msg}", tag=f"C17.creation/{fn}/raised")
            return
        if lc is None:
            return
        if out.status == "nofail":
            w.violation("C17", "C17.creation", f"step {w.nstep}: mg.{fn} accepted a non-real dtype / constant=False on integers while tracking is on", tag=f"C17.creation/{fn}/not_rejected")
            return
        if out.status != "ok":
            return
        t, ref = lc["t"], lc["ref"]
        lc["t"] = None
        if not isinstance(t, Tensor):
            w.violation("C17", "C17.creation", f"step {w.nstep}: mg.{fn} returned {type(t).__name__}", tag=f"C17.creation/{fn}/type")
            return
        d = t.data
        if d.shape != ref.shape:
            w.violation("C17", "C17.creation", f"step {w.nstep}: mg.{fn} gives shape {d.shape}, NumPy {ref.shape}", tag=f"C17.creation/{fn}/shape")
            return
        if d.dtype != ref.dtype:
            w.violation("C17", "C17.creation", f"step {w.nstep}: mg.{fn} gives dtype {d.dtype}, NumPy {ref.dtype}", tag=f"C17.creation/{fn}/dtype")
            return
        if lc["values"] and not np.array_equal(d, ref, equal_nan=True):
            w.violation("C17", "C17.creation", f"step {w.nstep}: mg.{fn} gives {d.tolist()!r:.120}, NumPy {ref.tolist()!r:.120}", tag=f"C17.creation/{fn}/value")
            return
        if t.creator is not None or t.base is not None or t.grad is not None:
            w.violation("C17", "C17.creation", f"step {w.nstep}: the result of mg.{fn} is attached to a graph / holds a gradient", tag=f"C17.creation/{fn}/attached")
            return
        # (documented for the *_like routines: the flag is inferred from a tensor argument)
        want = lc["constant"] if lc["constant"] is not None else ((d.dtype.kind != "f") or bool(lc.get("like_const")))
        if bool(t.constant) is not bool(want):
            w.violation("C17", "C17.creation", f"step {w.nstep}: mg.{fn} result has constant={t.constant}, the rules give {want}", tag=f"C17.creation/{fn}/constant")
            return
        w.probe("c17.creation_checked")


class AliasOracle(Observer):
    """aliasing model confirmed by actual later writes: after the caller changes one of its arrays
    every tensor shows the new values iff the model says it shares that memory; conversion results
    are (or are not) the same object / memory as the statement says."""

    def after(self, w, ev, out):
        k = ev["k"]
        if out.status != "ok":
            return
        lc = w.last_conv
        if k == "wrap" and lc is not None and lc.get("out") == ev["out"]:
            w.last_conv = None
            if lc["expect_shares"] and not lc["shares"]:
                if w.violation("C17", "C17.should_share", f"step {w.nstep}: {lc['how']} of an array of matching dtype did not reuse its memory", tag=f"C17.should_share/{lc['how']}"):
                    return
            if not lc["expect_shares"] and lc["shares"] and lc["how"] in ("tensor_copy", "Tensor"):
                if w.violation("C17", "C17.should_copy", f"step {w.nstep}: {lc['how']} (copying by default) shares memory with its input", tag=f"C17.should_copy/{lc['how']}"):
                    return
            w.probe("c17.construction_checked")
        if k == "conv" and lc is not None:
            w.last_conv = None
            how = lc["how"]
            if how in ("astensor", "tensor_nocopy"):
                should_be_same = lc["dtype_match"] and lc["const_match"]
                if should_be_same and not lc["result_is_src"]:
                    if w.violation("C17", "C17.astensor_identity", f"step {w.nstep}: {how}(t) with matching dtype/constant did not return t itself", tag=f"C17.astensor_identity/{how}"):
                        return
                if not should_be_same and lc["result_is_src"]:
                    if w.violation("C17", "C17.astensor_identity", f"step {w.nstep}: {how}(t) returned t itself although dtype/constant differ", tag=f"C17.astensor_identity/{how}/spurious"):
                        return
            if how == "astype" and not lc["copy"]:
                # astype(copy=False): the input itself only when dtype and constant are already satisfied
                should_be_same = lc["dtype_match"] and lc["const_match"]
                if should_be_same and not lc["result_is_src"]:
                    if w.violation("C17", "C17.astype_identity", f"step {w.nstep}: astype(copy=False) with matching dtype/constant did not return the tensor itself", tag="C17.astype_identity/nocopy"):
                        return
                if not should_be_same and lc["result_is_src"]:
                    if w.violation("C17", "C17.astype_identity", f"step {w.nstep}: astype(copy=False) returned the tensor itself although dtype/constant differ", tag="C17.astype_identity/nocopy/spurious"):
                        return
            if how in ("copy", "astype", "tensor_copy") and ev.get("out") in w.T:
                r = w.T[ev["out"]]
                if how != "astype" or not lc["result_is_src"]:
                    if r.creator is not None or r.base is not None:
                        if w.violation("C17", "C17.detached", f"step {w.nstep}: the result of {how} is attached to a graph (creator/base set)", tag=f"C17.detached/{how}"):
                            return
                    if lc["shares"] and not (how == "astype" and not lc["copy"] and lc["dtype_match"]):
                        if w.violation("C17", "C17.detached_memory", f"step {w.nstep}: the result of {how} shares memory with its source", tag=f"C17.detached_memory/{how}"):
                            return
            if how == "asarray" and not lc.get("is_data", True) and lc["dtype_match"]:
                if w.violation("C17", "C17.asarray_reuse", f"step {w.nstep}: asarray(t) did not return t's own array", tag="C17.asarray_reuse"):
                    return
            w.probe("c17.conversion_checked")
        if k == "awrite":
            # every tensor shows the write iff the model says it shares the memory
            for h, t in w.T.items():
                s = w.S.get(h)
                if s is None or t.data.shape != s.shape:
                    continue
                if not np.array_equal(t.data, s, equal_nan=True):
                    mb = w.info[h].made_by
                    sees = "sees" if np.shares_memory(t.data, w.A[ev["a"]]) else "does_not_see"
                    if w.violation("C17", "C17.later_write_visibility", f"step {w.nstep}: after the caller changed array {ev['a']}, tensor handle {h} (made by {mb}) {sees.replace('_', ' ')} the change, contrary to the aliasing rules", tag=f"C17.later_write_visibility/{sees}/made_by={mb}"):
                        return
            w.probe("c17.later_write_checked")
