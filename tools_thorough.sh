#!/bin/bash
# usage: tools_thorough.sh [budget] [seed] -- every registered check in the thorough tier, one after the other; prints only what needs attention
BUDGET=${1:-600}; SEED=${2:-20260925}
for p in C01 C04 C05 C06 C07 C08 C09 C10 C12 C13 C14 C15 C17 C18; do
  VERIF_SEED=$SEED ./check $p --tier thorough --budget $BUDGET 2>&1 | grep -v "^KNOWN" | sed "s/^/[$p] /" | grep -E "VIOLATION|violation:|HARNESS|thorough:" | cut -c1-600
done
